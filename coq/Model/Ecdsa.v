(* Model of the ECDSA signature layer of the vendored python-ecdsa package
   (/repo/appnotes/register_crypto_plugin/ecdsa):

     ecdsa.py    Public_key.verifies, Private_key.sign (incl. the k+n / k+2n blinding)
     keys.py     _truncate_and_convert_digest, SigningKey.sign_number / sign_digest /
                 sign_digest_deterministic, VerifyingKey.verify_digest
     util.py     orderlen, bit_length, number_to_string(_crop), string_to_number,
                 sigencode_{strings,string,der}(+_canonize), sigdecode_{strings,string,der}
     der.py      only the five primitives the signature codec uses (names prefixed sd_)
     numbertheory.inverse_mod
     rfc6979.py  generate_k   (bits2int, bits2octets and the integer tests are generated:
                 Gen/Rfc6979.v; the integer fragments of sign/verifies: Gen/EcdsaFrag.v)

   Elliptic-curve arithmetic is NOT modelled here (property C17): the curve is a
   Section parameter (points, addition, scalar multiplication, x-coordinate).
   hmac / the hash are Section parameters.  No proofs in this file. *)
From Coq Require Import List Bool NArith ZArith Lia.
From Coq Require Import Init.Byte.
From Bec2 Require Import Base.Result Base.Bytes Gen.Rfc6979 Gen.EcdsaFrag.
Import ListNotations.
Open Scope Z_scope.

(* ------------------------------------------------------------------------ *)
(* Exceptions of this layer that the shared enum does not have. *)

Inductive serr : Set :=
| SBase (e : err)      (* ValueError, AssertionError, TypeError, UnexpectedDER, ... *)
| SMalformed           (* util.MalformedSignature *)
| SBadSig              (* keys.BadSignatureError *)
| SBadDigest           (* keys.BadDigestError *)
| SRSZero.             (* ecdsa.RSZeroError *)

Definition serr_eqb (a b : serr) : bool :=
  match a, b with
  | SBase e, SBase f => err_eqb e f
  | SMalformed, SMalformed | SBadSig, SBadSig | SBadDigest, SBadDigest | SRSZero, SRSZero => true
  | _, _ => false
  end.

Inductive sres (A : Type) : Type :=
| SOk (a : A)
| SErr (e : serr).
Arguments SOk {A} a.
Arguments SErr {A} e.

Definition sbind {A B} (r : sres A) (f : A -> sres B) : sres B :=
  match r with SOk a => f a | SErr e => SErr e end.

Notation "'let+' x ':=' r 'in' k" := (sbind r (fun x => k))
  (at level 200, x pattern, r at level 100, k at level 200, right associativity) : res_scope.

Definition lift {A} (r : result A) : sres A :=
  match r with Ok a => SOk a | Err e => SErr (SBase e) end.

Definition sres_eqb {A} (eqb : A -> A -> bool) (x y : sres A) : bool :=
  match x, y with
  | SOk a, SOk b => eqb a b
  | SErr e, SErr f => serr_eqb e f
  | _, _ => false
  end.

Definition zz_eqb (x y : Z * Z) : bool := (fst x =? fst y) && (snd x =? snd y).

(* ------------------------------------------------------------------------ *)
(* util.py integer helpers (arguments >= 0 are what the library produces;
   negative arguments are modelled as CPython formats them). *)

(* util.bit_length: len(bin(x)) - 2, 0 for 0   (bin(-5) = '-0b101') *)
Definition bit_length (x : Z) : Z :=
  if x =? 0 then 0 else if 0 <? x then Z.log2 x + 1 else Z.log2 (- x) + 2.

(* len("%x" % x) *)
Definition hexlen (x : Z) : Z :=
  if x =? 0 then 1 else if 0 <? x then Z.log2 x / 4 + 1 else Z.log2 (- x) / 4 + 2.

(* util.orderlen *)
Definition orderlen (order : Z) : Z := (1 + hexlen order) / 2.

(* binascii.unhexlify(("%0" + str(2*l) + "x") % num): ValueError (binascii.Error) for a
   minus sign or an odd number of digits; otherwise max(l, ceil(hexlen/2)) bytes *)
Definition hex_bytes (num l : Z) : result bytes :=
  if num <? 0 then Err EValue else
  let w := Z.max (2 * l) (hexlen num) in
  if Z.odd w then Err EValue else Ok (be (Z.to_nat (w / 2)) (Z.to_N num)).

(* util.number_to_string: assert len(string) == l *)
Definition number_to_string (num order : Z) : result bytes :=
  let l := orderlen order in
  let* s := hex_bytes num l in
  if Z.of_N (blen s) =? l then Ok s else Err EAssert.

(* util.number_to_string_crop: string[:l] *)
Definition number_to_string_crop (num order : Z) : result bytes :=
  let l := orderlen order in
  let* s := hex_bytes num l in
  Ok (takeN (Z.to_N l) s).

(* util.string_to_number: int(hexlify(b""), 16) raises ValueError *)
Definition string_to_number (s : bytes) : result Z :=
  match s with [] => Err EValue | _ => Ok (Z.of_N (from_be s)) end.

(* ------------------------------------------------------------------------ *)
(* numbertheory.inverse_mod (CPython >= 3.8 branch: pow(a, -1, m)).  The loop
   is the one of the pure-Python branch of the same function; pow(a,-1,m)
   raises ValueError when a is not invertible and returns 0 for m = 1.
   Not modelled: m < 0 (orders are positive); reported as ValueError. *)
Fixpoint inv_loop (fuel : nat) (lm low hm high : Z) : option (Z * Z) :=
  match fuel with
  | O => None
  | S f =>
    if 1 <? low then
      let r := high / low in
      inv_loop f (hm - lm * r) (high - low * r) lm low
    else Some (lm, low)
  end.

Definition inv_fuel (m : Z) : nat := 2 * Z.to_nat (Z.log2 m) + 4.

Definition inverse_mod (a m : Z) : result Z :=
  if a =? 0 then Ok 0 else
  if m <=? 0 then Err EValue else
  match inv_loop (inv_fuel m) 1 (a mod m) 0 m with
  | None => Err EFuel
  | Some (lm, low) =>
    if low =? 1 then Ok (lm mod m)
    else if m =? 1 then Ok 0 else Err EValue
  end.

(* ------------------------------------------------------------------------ *)
(* keys._truncate_and_convert_digest (curve.baselen = orderlen(curve.order) on
   the Weierstrass curves) *)
Definition truncate_and_convert_digest (digest : bytes) (order : Z) (allow_truncate : bool) : sres Z :=
  let baselen := orderlen order in
  if allow_truncate then
    let d := takeN (Z.to_N baselen) digest in
    let+ number := lift (string_to_number d) in
    let max_length := bit_length order in
    let length := Z.of_N (blen d) * 8 in
    SOk (Z.shiftr number (Z.max 0 (length - max_length)))
  else
    if baselen <? Z.of_N (blen digest) then SErr SBadDigest
    else lift (string_to_number digest).

(* ------------------------------------------------------------------------ *)
(* Signature encoders (util.py) *)

Definition sigencode_strings (r s order : Z) : result (bytes * bytes) :=
  let* r_str := number_to_string r order in
  let* s_str := number_to_string s order in
  Ok (r_str, s_str).

Definition sigencode_string (r s order : Z) : result bytes :=
  let* (r_str, s_str) := sigencode_strings r s order in
  Ok (r_str ++ s_str).

(* the DER pieces used by sigencode_der / sigdecode_der *)

(* number of bytes of unhexlify(even-padded "%x" % v) *)
Definition nbytes (v : N) : nat :=
  match v with N0 => 1%nat | _ => S (N.to_nat (N.log2 v / 8)) end.
Definition min_be (v : N) : bytes := be (nbytes v) v.

Definition sd_encode_length (l : N) : result bytes :=
  if (l <? 0x80)%N then Ok [n2b l] else
  let s := min_be l in
  let* h := to_bytes 1 (N.lor 0x80 (blen s)) in
  Ok (h ++ s).

Definition sd_encode_integer (r : Z) : result bytes :=
  if r <? 0 then Err EAssert else
  let s := min_be (Z.to_N r) in
  match s with
  | [] => Err EIndex
  | b0 :: _ =>
    if (b2n b0 <=? 0x7F)%N then
      let* l := sd_encode_length (blen s) in Ok ([x02] ++ l ++ s)
    else
      let* l := sd_encode_length (blen s + 1) in Ok ([x02] ++ l ++ [x00] ++ s)
  end.

Definition sd_encode_sequence (pieces : list bytes) : result bytes :=
  let body := concat pieces in
  let* l := sd_encode_length (blen body) in
  Ok ([x30] ++ l ++ body).

Definition sigencode_der (r s order : Z) : result bytes :=
  let* a := sd_encode_integer r in
  let* b := sd_encode_integer s in
  sd_encode_sequence [a; b].

(* `s > order / 2` is a comparison of an int with the FLOAT order / 2 (true
   division, correctly rounded to 53 significant bits, ties to even; the
   comparison itself is exact).  round53 x = 2 * float(x / 2) as an integer. *)
Definition round53 (x : Z) : Z :=
  let b := bit_length x in
  if b <=? 53 then x else
  let sh := b - 53 in
  let q := Z.shiftr x sh in
  let rem := x - Z.shiftl q sh in
  let half := Z.shiftl 1 (sh - 1) in
  let q' := if half <? rem then q + 1
            else if rem =? half then (if Z.odd q then q + 1 else q)
            else q in
  Z.shiftl q' sh.

Definition float_twice_half (order : Z) : Z :=
  if 0 <=? order then round53 order else - round53 (- order).

(* s > order / 2 ; OverflowError when order / 2 does not fit a double *)
Definition gt_half (s order : Z) : result bool :=
  let f := float_twice_half order in
  if Z.shiftl 1 1025 <=? Z.abs f then Err EOverflow else Ok (f <? 2 * s).

Definition canonize (s order : Z) : result Z :=
  let* g := gt_half s order in
  Ok (if g then order - s else s).

Definition sigencode_strings_canonize (r s order : Z) : result (bytes * bytes) :=
  let* s' := canonize s order in sigencode_strings r s' order.
Definition sigencode_string_canonize (r s order : Z) : result bytes :=
  let* s' := canonize s order in sigencode_string r s' order.
Definition sigencode_der_canonize (r s order : Z) : result bytes :=
  let* s' := canonize s order in sigencode_der r s' order.

(* ------------------------------------------------------------------------ *)
(* Signature decoders *)

(* string_to_number_fixedlen after the length checks (the assert cannot fail) *)
Definition sigdecode_string (signature : bytes) (order : Z) : sres (Z * Z) :=
  let l := orderlen order in
  if negb (Z.of_N (blen signature) =? 2 * l) then SErr SMalformed else
  let+ r := lift (string_to_number (takeN (Z.to_N l) signature)) in
  let+ s := lift (string_to_number (dropN (Z.to_N l) signature)) in
  SOk (r, s).

Definition sigdecode_strings (rs_strings : list bytes) (order : Z) : sres (Z * Z) :=
  match rs_strings with
  | [r_str; s_str] =>
    let l := orderlen order in
    if negb (Z.of_N (blen r_str) =? l) then SErr SMalformed else
    if negb (Z.of_N (blen s_str) =? l) then SErr SMalformed else
    let+ r := lift (string_to_number r_str) in
    let+ s := lift (string_to_number s_str) in
    SOk (r, s)
  | _ => SErr SMalformed
  end.

(* der.read_length: (length, number of bytes consumed) *)
Definition sd_read_length (s : bytes) : result (N * N) :=
  (match s with
  | [] => Err EUnexpectedDER
  | b0 :: t =>
    let num := b2n b0 in
    if N.land num 0x80 =? 0 then Ok (N.land num 0x7F, 1) else
    let llen := N.land num 0x7F in
    if llen =? 0 then Err EUnexpectedDER else
    if blen t <? llen then Err EUnexpectedDER else
    match t with
    | [] => Err EIndex
    | msb :: _ =>
      if (b2n msb =? 0) || ((llen =? 1) && (b2n msb <? 0x80)) then Err EUnexpectedDER
      else Ok (from_be (takeN llen t), 1 + llen)
    end
  end)%N.

(* der.remove_sequence: (body, rest) *)
Definition sd_remove_sequence (s : bytes) : result (bytes * bytes) :=
  (match s with
  | [] => Err EUnexpectedDER
  | b0 :: t =>
    if negb (byte_eqb b0 x30) then Err EUnexpectedDER else
    let* (length, ll) := sd_read_length t in
    if blen s - 1 - ll <? length then Err EUnexpectedDER else
    let endseq := 1 + ll + length in
    Ok (takeN length (dropN (1 + ll) s), dropN endseq s)
  end)%N.

(* der.remove_integer: (value, rest) *)
Definition sd_remove_integer (s : bytes) : result (Z * bytes) :=
  (match s with
  | [] => Err EUnexpectedDER
  | b0 :: t =>
    if negb (byte_eqb b0 x02) then Err EUnexpectedDER else
    let* (length, ll) := sd_read_length t in
    if blen s - 1 - ll <? length then Err EUnexpectedDER else
    if length =? 0 then Err EUnexpectedDER else
    let numberbytes := takeN length (dropN (1 + ll) s) in
    let rest := dropN (1 + ll + length) s in
    match numberbytes with
    | [] => Err EIndex
    | msb :: nt =>
      if negb (b2n msb <? 0x80) then Err EUnexpectedDER else
      if (1 <? length) && (b2n msb =? 0) then
        match nt with
        | [] => Err EIndex
        | smsb :: _ =>
          if b2n smsb <? 0x80 then Err EUnexpectedDER
          else Ok (Z.of_N (from_be numberbytes), rest)
        end
      else Ok (Z.of_N (from_be numberbytes), rest)
    end
  end)%N.

Definition nonempty {A} (l : list A) : bool := match l with [] => false | _ => true end.

Definition sigdecode_der (sig_der : bytes) (order : Z) : sres (Z * Z) :=
  lift (
    let* (rs_strings, empty) := sd_remove_sequence sig_der in
    if nonempty empty then Err EUnexpectedDER else
    let* (r, rest) := sd_remove_integer rs_strings in
    let* (s, empty2) := sd_remove_integer rest in
    if nonempty empty2 then Err EUnexpectedDER else
    Ok (r, s)).

(* ------------------------------------------------------------------------ *)
(* ECDSA over an abstract curve *)

Section Curve.
  Variable point : Type.
  Variable padd : point -> point -> point.      (* P + Q *)
  Variable smul : Z -> point -> point.          (* k * P *)
  Variable xcoord : point -> option Z.          (* P.x(); None for INFINITY *)
  Variable G : point.                           (* generator *)
  Variable n : Z.                               (* G.order() *)

  (* Public_key.verifies(hash, Signature(r, s)) for the public point Q.
     `if xy == ellipticcurve.INFINITY: return False` (generated
     verifies_infinity_result) precedes xy.x(), so the None x-coordinate of
     INFINITY is never used. *)
  Definition verifies (Q : point) (hash r s : Z) : result bool :=
    if verifies_reject_r r n then Ok false else
    if verifies_reject_s s n then Ok false else
    let* c := inverse_mod s n in
    let u1 := verifies_u1 hash c n in
    let u2 := verifies_u2 r c n in
    let xy := padd (smul u1 G) (smul u2 Q) in
    match xcoord xy with
    | None => Ok verifies_infinity_result
    | Some x => Ok (verifies_result (verifies_v x n) r)
    end.

  (* Private_key.sign(hash, random_k) with secret multiplier d *)
  Definition sign (d hash random_k : Z) : sres (Z * Z) :=
    let k := sign_k random_k n in
    let ks := sign_ks k n in
    let kt := sign_kt ks n in
    let p1 := if sign_use_kt bit_length ks n then smul kt G else smul ks G in
    match xcoord p1 with
    | None => SErr (SBase EType)
    | Some x =>
      let r := sign_r x n in
      if sign_r_zero r then SErr SRSZero else
      let+ ik := lift (inverse_mod k n) in
      let s := sign_s ik hash d r n in
      if sign_s_zero s then SErr SRSZero else SOk (r, s)
    end.

  (* SigningKey.sign_number(number, k=k): assert 1 <= k < order *)
  Definition sign_number (d number k : Z) : sres (Z * Z) :=
    if (1 <=? k) && (k <? n) then sign d number k else SErr (SBase EAssert).

  (* SigningKey.sign_digest(digest, sigencode=..., k=k, allow_truncate=...) *)
  Definition sign_digest {S} (sigencode : Z -> Z -> Z -> result S)
      (d : Z) (digest : bytes) (k : Z) (allow_truncate : bool) : sres S :=
    let+ number := truncate_and_convert_digest digest n allow_truncate in
    let+ (r, s) := sign_number d number k in
    lift (sigencode r s n).

  (* VerifyingKey.verify_digest(signature, digest, sigdecode, allow_truncate) *)
  Definition verify_digest {S} (sigdecode : S -> Z -> sres (Z * Z))
      (Q : point) (signature : S) (digest : bytes) (allow_truncate : bool) : sres bool :=
    let+ number := truncate_and_convert_digest digest n allow_truncate in
    let+ (r, s) :=
      match sigdecode signature n with
      | SErr (SBase EUnexpectedDER) | SErr SMalformed => SErr SBadSig
      | x => x
      end in
    let+ ok := lift (verifies Q number r s) in
    if ok then SOk true else SErr SBadSig.
End Curve.

(* ------------------------------------------------------------------------ *)
(* rfc6979.generate_k.  hmac h key msg = hmac.new(key, msg, h).digest()
   (an hmac object that is fed with several update() calls is hmac of the
   concatenation).  The outer `while True` has explicit fuel. *)

Section Rfc6979.
  Variable hname : Type.
  Variable hmac : hname -> bytes -> bytes -> bytes.
  Variable digest_size : hname -> Z.

  Section Loop.
    Variable h : hname.
    Variable order qlen rolen : Z.

    (* Step H2: while len(t) < rolen: v = hmac(k, v); t += v *)
    Fixpoint gk_fill (fuel : nat) (k v t : bytes) : result (bytes * bytes) :=
      if Z.of_N (blen t) <? rolen then
        match fuel with
        | O => Err EFuel
        | S f => let v' := hmac h k v in gk_fill f k v' (t ++ v')
        end
      else Ok (v, t).

    Fixpoint gk_loop (fuel : nat) (k v : bytes) (retry_gen : Z) : result Z :=
      match fuel with
      | O => Err EFuel
      | S f =>
        let* (v1, t) := gk_fill (S (Z.to_nat rolen)) k v [] in
        let* secret := bits2int t qlen in
        let k' := hmac h k (v1 ++ [x00]) in
        let v' := hmac h k' v1 in
        if generate_k_accept secret order then
          if generate_k_retry_done retry_gen then Ok secret
          else gk_loop f k' v' (retry_gen - 1)
        else gk_loop f k' v' retry_gen
      end.
  End Loop.

  Definition generate_k (fuel : nat) (order secexp : Z) (h : hname) (data : bytes)
      (retry_gen : Z) (extra_entropy : bytes) : result Z :=
    let qlen := bit_length order in
    let holen := digest_size h in
    let rolen := generate_k_rolen qlen in
    let* b0 := number_to_string secexp order in
    let* b1 := bits2octets bit_length number_to_string_crop data order in
    let bx := b0 ++ b1 ++ extra_entropy in
    let v := repeat x01 (Z.to_nat holen) in
    let k := repeat x00 (Z.to_nat holen) in
    let k := hmac h k (v ++ [x00] ++ bx) in
    let v := hmac h k v in
    let k := hmac h k (v ++ [x01] ++ bx) in
    let v := hmac h k v in
    gk_loop h order qlen rolen fuel k v retry_gen.

  (* SigningKey.sign_digest_deterministic over an abstract curve: retry with
     retry_gen + 1 while sign raises RSZeroError *)
  Section Det.
    Variable point : Type.
    Variable smul : Z -> point -> point.
    Variable xcoord : point -> option Z.
    Variable G : point.
    Variable n : Z.

    Fixpoint sdd_loop {S} (fuel kfuel : nat) (sigencode : Z -> Z -> Z -> result S)
        (d : Z) (h : hname) (digest extra : bytes) (allow_truncate : bool) (retry_gen : Z) : sres S :=
      match fuel with
      | O => SErr (SBase EFuel)
      | S f =>
        let+ k := lift (generate_k kfuel n d h digest retry_gen extra) in
        match sign_digest point smul xcoord G n (fun r s o => Ok (r, s)) d digest k allow_truncate with
        | SErr SRSZero => sdd_loop f kfuel sigencode d h digest extra allow_truncate (retry_gen + 1)
        | SErr e => SErr e
        | SOk (r, s) => lift (sigencode r s n)
        end
      end.

    Definition sign_digest_deterministic {S} (fuel kfuel : nat) (sigencode : Z -> Z -> Z -> result S)
        (d : Z) (h : hname) (digest extra : bytes) (allow_truncate : bool) : sres S :=
      sdd_loop fuel kfuel sigencode d h digest extra allow_truncate 0.
  End Det.
End Rfc6979.

(* ------------------------------------------------------------------------ *)
(* SPECIFICATIONS (written from the standards, not from the code) *)

(* FIPS 186-4 / RFC 6979 2.3.2: the leftmost min(qlen, blen) bits of a bit
   string, read as a big-endian number. *)
Definition byte_bits (b : byte) : list bool :=
  let v := b2n b in
  [N.testbit v 7; N.testbit v 6; N.testbit v 5; N.testbit v 4;
   N.testbit v 3; N.testbit v 2; N.testbit v 1; N.testbit v 0].
Definition bits_of (data : bytes) : list bool := flat_map byte_bits data.
Definition bits_value (bits : list bool) : Z :=
  fold_left (fun acc (b : bool) => 2 * acc + (if b then 1 else 0)) bits 0.
Definition leftmost_bits (qlen : Z) (data : bytes) : Z :=
  bits_value (firstn (Z.to_nat qlen) (bits_of data)).

(* RFC 6979 section 3.2 (with the optional k' of section 3.6), as a stream of
   candidates.  x_octets = int2octets(x), h_octets = bits2octets(h1). *)
Section Rfc6979Spec.
  Variable hname : Type.
  Variable hmac : hname -> bytes -> bytes -> bytes.
  Variable h : hname.
  Variable hlen : Z.            (* output length of the hash in octets *)
  Variable q : Z.               (* the order *)
  Variable x_octets h_octets extra : bytes.

  Definition rfc_qlen : Z := Z.log2 q + 1.
  (* h.2: "while tlen < qlen": number of hash blocks in T *)
  Definition rfc_blocks : nat := Z.to_nat ((rfc_qlen + 8 * hlen - 1) / (8 * hlen)).

  (* m successive V = HMAC_K(V); T = T || V *)
  Fixpoint rfc_T (m : nat) (K V : bytes) : bytes * bytes :=
    match m with
    | O => ([], V)
    | S m' => let V1 := hmac h K V in
              let (T, V') := rfc_T m' K V1 in (V1 ++ T, V')
    end.

  (* steps b-g *)
  Definition rfc_init : bytes * bytes :=
    let V := repeat x01 (Z.to_nat hlen) in
    let K := repeat x00 (Z.to_nat hlen) in
    let K := hmac h K (V ++ [x00] ++ x_octets ++ h_octets ++ extra) in
    let V := hmac h K V in
    let K := hmac h K (V ++ [x01] ++ x_octets ++ h_octets ++ extra) in
    let V := hmac h K V in
    (K, V).

  (* state (K, V) at the beginning of the i-th execution of step h *)
  Fixpoint rfc_state (i : nat) : bytes * bytes :=
    match i with
    | O => rfc_init
    | S j => let (K, V) := rfc_state j in
             let (_, V') := rfc_T rfc_blocks K V in
             let K' := hmac h K (V' ++ [x00]) in
             (K', hmac h K' V')
    end.

  (* the i-th candidate: bits2int(T) *)
  Definition rfc_candidate (i : nat) : Z :=
    let (K, V) := rfc_state i in
    leftmost_bits rfc_qlen (fst (rfc_T rfc_blocks K V)).

  Definition rfc_good (i : nat) : bool :=
    (1 <=? rfc_candidate i) && (rfc_candidate i <=? q - 1).

  (* number of suitable candidates among the first i *)
  Fixpoint rfc_good_before (i : nat) : Z :=
    match i with
    | O => 0
    | S j => rfc_good_before j + (if rfc_good j then 1 else 0)
    end.
End Rfc6979Spec.

(* ------------------------------------------------------------------------ *)
(* Concrete groups used to instantiate the Curve section.

   zn_*: the additive group Z_n generated by 1, with the toy "x-coordinate"
   min(a, n-a) (invariant under negation, undefined at the neutral element).
   It satisfies every group hypothesis of the theorems for every n > 0.

   tab_x: x-coordinates supplied as a table indexed by the discrete logarithm;
   used by the correspondence, where the table holds the points k*G computed by
   the implementation on a real curve. *)
Definition zn_padd (n a b : Z) : Z := (a + b) mod n.
Definition zn_smul (n k a : Z) : Z := (k * a) mod n.
Definition zn_x (n a : Z) : option Z :=
  if a mod n =? 0 then None else Some (Z.min (a mod n) (n - a mod n)).

Definition tab_x (tab : list (Z * Z)) (n a : Z) : option Z :=
  match find (fun p => fst p =? a mod n) tab with
  | Some p => Some (snd p)
  | None => None
  end.

(* hmac supplied as an oracle table (correspondence): (hash id, key, msg) -> digest *)
Definition hmac_tab (tab : list (N * bytes * bytes * bytes)) (h : N) (key msg : bytes) : bytes :=
  match find (fun e => match e with (h', k', m', _) =>
                (h' =? h)%N && bytes_eqb k' key && bytes_eqb m' msg end) tab with
  | Some (_, _, _, d) => d
  | None => []
  end.
