(* Python str / dict / int primitives used by the BF2 importer
   (bec2format/bf3file.py), modelled with their exception behaviour.
   str = list N (code points).  The whitespace class is CPython's
   str.isspace / re \s / str.strip / str.split(None) restricted to code points
   0..255 (all four agree there); text beyond Latin-1 is outside the model. *)
From Coq Require Import Ascii String.
From Coq Require Import List Bool NArith ZArith Lia.
From Coq Require Import Init.Byte.
From Bec2 Require Import Base.Result Base.Bytes.
Import ListNotations.
Open Scope N_scope.

Definition str := list N.
Definition str_eqb : str -> str -> bool := list_eqb N.eqb.

(* string literal -> code points *)
Definition lit (s : string) : str := map N_of_ascii (list_ascii_of_string s).

(* --- association lists as insertion-ordered dicts --------------------------- *)
Section Dict.
  Context {K V : Type} (eqb : K -> K -> bool).
  Fixpoint dget (k : K) (d : list (K * V)) : option V :=
    match d with
    | [] => None
    | (k', v) :: t => if eqb k k' then Some v else dget k t
    end.
  (* d[k] = v : replace in place, else append *)
  Fixpoint dset (k : K) (v : V) (d : list (K * V)) : list (K * V) :=
    match d with
    | [] => [(k, v)]
    | (k', v') :: t => if eqb k k' then (k, v) :: t else (k', v') :: dset k v t
    end.
  Fixpoint ddel (k : K) (d : list (K * V)) : list (K * V) :=
    match d with
    | [] => []
    | (k', v') :: t => if eqb k k' then t else (k', v') :: ddel k t
    end.
  Definition dmem (k : K) (d : list (K * V)) : bool :=
    match dget k d with Some _ => true | None => false end.
  (* dict(iterable of pairs) / dict.update *)
  Definition dupdate (d : list (K * V)) (kv : list (K * V)) : list (K * V) :=
    fold_left (fun acc p => dset (fst p) (snd p) acc) kv d.
End Dict.

(* --- character classes --------------------------------------------------------- *)
Definition is_space (c : N) : bool :=
  ((9 <=? c) && (c <=? 13)) || ((28 <=? c) && (c <=? 32)) || (c =? 133) || (c =? 160).

Fixpoint drop_while (p : N -> bool) (s : str) : str :=
  match s with
  | [] => []
  | c :: t => if p c then drop_while p t else s
  end.
Fixpoint take_while (p : N -> bool) (s : str) : str :=
  match s with
  | [] => []
  | c :: t => if p c then c :: take_while p t else []
  end.

Definition lstrip (s : str) : str := drop_while is_space s.
Definition rstrip (s : str) : str := rev (drop_while is_space (rev s)).
Definition strip (s : str) : str := rstrip (lstrip s).

(* s.split(None, 1) *)
Definition split_ws1 (s : str) : list str :=
  match lstrip s with
  | [] => []
  | s1 =>
    let w := take_while (fun c => negb (is_space c)) s1 in
    match lstrip (drop_while (fun c => negb (is_space c)) s1) with
    | [] => [w]
    | r => [w; r]
    end
  end.

(* s.split(c) for a one-character separator: never empty, keeps empty fields *)
Fixpoint split_on_acc (c : N) (s : str) (cur_rev : str) : list str :=
  match s with
  | [] => [rev cur_rev]
  | x :: t => if x =? c then rev cur_rev :: split_on_acc c t []
              else split_on_acc c t (x :: cur_rev)
  end.
Definition split_on (c : N) (s : str) : list str := split_on_acc c s [].

Fixpoint join (sep : str) (l : list str) : str :=
  match l with
  | [] => []
  | [a] => a
  | a :: t => a ++ sep ++ join sep t
  end.

Fixpoint starts_with (p s : str) : bool :=
  match p, s with
  | [], _ => true
  | a :: p', b :: s' => (a =? b) && starts_with p' s'
  | _ :: _, [] => false
  end.

(* s[a:b] for 0 <= a <= b *)
Definition slice (a b : N) (s : str) : str := takeN (b - a) (dropN a s).

(* --- hex ---------------------------------------------------------------------------- *)
Definition hexval (c : N) : option N :=
  if (48 <=? c) && (c <=? 57) then Some (c - 48)
  else if (65 <=? c) && (c <=? 70) then Some (c - 55)
  else if (97 <=? c) && (c <=? 102) then Some (c - 87)
  else None.

Definition hexdigit_upper (n : N) : N := if n <? 10 then 48 + n else 55 + n.

(* "{:02X}" of a byte *)
Definition hex_byte (b : byte) : str :=
  [hexdigit_upper (b2n b / 16); hexdigit_upper (b2n b mod 16)].
(* b.hex().upper() *)
Definition hex_upper (b : bytes) : str := flat_map hex_byte b.
(* b.hex(" ").upper() *)
Definition hex_upper_sp (b : bytes) : str := join [32] (map hex_byte b).

(* binascii.unhexlify on a str: non-hex (incl. non-ASCII) and odd length are ValueError *)
Fixpoint unhexlify (s : str) : result bytes :=
  match s with
  | [] => Ok []
  | [_] => Err EValue
  | a :: b :: t =>
    match hexval a, hexval b with
    | Some x, Some y => let* r := unhexlify t in Ok (n2b (x * 16 + y) :: r)
    | _, _ => Err EValue
    end
  end.

(* re class [\s,-/:] of hex2bin *)
Definition hex2bin_skip (c : N) : bool :=
  is_space c || ((44 <=? c) && (c <=? 47)) || (c =? 58).

Definition hex2bin (s : str) : result bytes :=
  let clean := filter (fun c => negb (hex2bin_skip c)) s in
  let clean' := if N.odd (blen clean)
                then removelast clean ++ [48] ++ lastN 1 clean
                else clean in
  unhexlify clean'.

(* --- int <-> str -------------------------------------------------------------------- *)
Definition digit_val (c : N) : option N :=
  if (48 <=? c) && (c <=? 57) then Some (c - 48)
  else if (65 <=? c) && (c <=? 90) then Some (c - 55)
  else if (97 <=? c) && (c <=? 122) then Some (c - 87)
  else None.

(* digits of [base] with single underscores strictly between digits.
   prev_us: previous character was '_' ; any: at least one digit seen *)
Fixpoint parse_digits (base : N) (s : str) (acc : N) (prev_us any : bool) : option N :=
  match s with
  | [] => if prev_us || negb any then None else Some acc
  | c :: t =>
    if c =? 95 then (if prev_us || negb any then None else parse_digits base t acc true any)
    else match digit_val c with
         | Some d => if d <? base then parse_digits base t (acc * base + d) false true else None
         | None => None
         end
  end.

(* int() strips C whitespace; code points >= 127 that are Unicode spaces are first
   mapped to ' ' (so 0x1c..0x1f, which str.strip removes, are NOT accepted here) *)
Definition is_space_int (c : N) : bool :=
  ((9 <=? c) && (c <=? 13)) || (c =? 32) || (c =? 133) || (c =? 160).

(* int(s) / int(s, 16) for base in {10, 16} on Latin-1 text *)
Definition py_int (base : N) (s : str) : result Z :=
  let s := rev (drop_while is_space_int (rev (drop_while is_space_int s))) in
  let '(neg, s) := match s with
                   | 43 :: t => (false, t)
                   | 45 :: t => (true, t)
                   | _ => (false, s)
                   end in
  let s :=
    if base =? 16 then
      match s with
      | 48 :: 120 :: t | 48 :: 88 :: t => match t with 95 :: t' => t' | _ => t end
      | _ => s
      end
    else s in
  match parse_digits base s 0 false false with
  | Some v => Ok (if neg then (- Z.of_N v)%Z else Z.of_N v)
  | None => Err EValue
  end.

(* str(n), n >= 0 *)
Fixpoint dec_digits (fuel : nat) (n : N) (acc : str) : str :=
  match fuel with
  | O => acc
  | S f => let acc' := (48 + n mod 10) :: acc in
           if n <? 10 then acc' else dec_digits f (n / 10) acc'
  end.
Definition dec_str (n : N) : str := dec_digits (S (N.to_nat (N.size n))) n [].

Fixpoint hex_digits (fuel : nat) (n : N) (acc : str) : str :=
  match fuel with
  | O => acc
  | S f => let acc' := hexdigit_upper (n mod 16) :: acc in
           if n <? 16 then acc' else hex_digits f (n / 16) acc'
  end.
(* "{:X}".format(n) *)
Definition hex_str (n : N) : str := hex_digits (S (N.to_nat (N.size n))) n [].
(* "{:04X}".format(n) *)
Definition hex_str4 (n : N) : str :=
  let h := hex_str n in repeat 48 (4 - length h)%nat ++ h.

(* int.to_bytes(n, "big") of a possibly negative int *)
Definition to_bytes_Z (n : nat) (v : Z) : result bytes :=
  if (v <? 0)%Z then Err EOverflow else to_bytes n (Z.to_N v).

(* --- bytes.decode() : strict UTF-8 ------------------------------------------------- *)
Definition is_cont (b : N) : bool := (128 <=? b) && (b <=? 191).

Fixpoint utf8_decode (bs : list N) : result str :=
  match bs with
  | [] => Ok []
  | b0 :: t0 =>
    if b0 <? 128 then let* r := utf8_decode t0 in Ok (b0 :: r)
    else if (194 <=? b0) && (b0 <=? 223) then
      match t0 with
      | b1 :: t1 =>
        if is_cont b1 then
          let* r := utf8_decode t1 in Ok (((b0 - 192) * 64 + (b1 - 128)) :: r)
        else Err EUnicode
      | _ => Err EUnicode
      end
    else if (224 <=? b0) && (b0 <=? 239) then
      match t0 with
      | b1 :: b2 :: t2 =>
        let lo := if b0 =? 224 then 160 else 128 in
        let hi := if b0 =? 237 then 159 else 191 in
        if (lo <=? b1) && (b1 <=? hi) && is_cont b2 then
          let* r := utf8_decode t2 in
          Ok (((b0 - 224) * 4096 + (b1 - 128) * 64 + (b2 - 128)) :: r)
        else Err EUnicode
      | _ => Err EUnicode
      end
    else if (240 <=? b0) && (b0 <=? 244) then
      match t0 with
      | b1 :: b2 :: b3 :: t3 =>
        let lo := if b0 =? 240 then 144 else 128 in
        let hi := if b0 =? 244 then 143 else 191 in
        if (lo <=? b1) && (b1 <=? hi) && is_cont b2 && is_cont b3 then
          let* r := utf8_decode t3 in
          Ok (((b0 - 240) * 262144 + (b1 - 128) * 4096 + (b2 - 128) * 64 + (b3 - 128)) :: r)
        else Err EUnicode
      | _ => Err EUnicode
      end
    else Err EUnicode
  end.
