(* Specification of AES and of the five confidentiality modes, written from the
   standards (FIPS-197 sections 4, 5.1, 5.2, 5.3; NIST SP 800-38A sections
   6.1-6.5 and appendix B.1).  Nothing in this file looks at /repo.  It is
   validated against the FIPS-197 appendix A/B/C and SP 800-38A appendix F
   vectors in Proofs/AesSpecVectors.v, and the model of the bundled pyaes code
   (Model/Aes.v, Model/AesModes.v) is proved equal to it in Proofs/Aes*Proofs.v. *)
From Coq Require Import List Bool NArith Lia.
From Coq Require Import Init.Byte.
From Bec2 Require Import Base.Result Base.Bytes Model.Cbc.
Import ListNotations.
Open Scope N_scope.

(* ---- FIPS-197 section 4: GF(2^8), polynomial x^8+x^4+x^3+x+1 ({01}{1b}) ---- *)

(* 4.2.1: multiplication by x *)
Definition xtime (x : N) : N :=
  let y := 2 * x in if y <? 256 then y else N.lxor y 0x11b.

(* 4.2: a . b as the sum of the xtime-multiples of b selected by the bits of a *)
Fixpoint gmul_aux (n : nat) (a b : N) : N :=
  match n with
  | O => 0
  | S n' => N.lxor (if N.odd a then b else 0) (gmul_aux n' (N.div2 a) (xtime b))
  end.
Definition gmul (a b : N) : N := gmul_aux 8 a b.

(* multiplicative inverse as b^254 (b^255 = 1 for b <> 0; {00} is mapped to itself) *)
Definition gsq (x : N) : N := gmul x x.
Definition ginv (x : N) : N :=
  let x2 := gsq x in let x4 := gsq x2 in let x8 := gsq x4 in let x16 := gsq x8 in
  let x32 := gsq x16 in let x64 := gsq x32 in let x128 := gsq x64 in
  gmul x2 (gmul x4 (gmul x8 (gmul x16 (gmul x32 (gmul x64 x128))))).

(* 5.1.1 (5.1): b'_i = b_i + b_(i+4) + b_(i+5) + b_(i+6) + b_(i+7) + c_i, c = {63} *)
Definition bit_at (b i : N) : bool := N.testbit b (i mod 8).
Definition bits_to_N (f : N -> bool) : N :=
  fold_right (fun i acc => (if f i then 2 ^ i else 0) + acc) 0 [0; 1; 2; 3; 4; 5; 6; 7].
Definition affine (b : N) : N :=
  bits_to_N (fun i => xorb (bit_at b i) (xorb (bit_at b (i + 4)) (xorb (bit_at b (i + 5))
                      (xorb (bit_at b (i + 6)) (xorb (bit_at b (i + 7)) (N.testbit 0x63 i)))))).
Definition sbox (x : N) : N := affine (ginv x).

(* 5.3.2: inverse of the affine map (b_i = b'_(i+2) + b'_(i+5) + b'_(i+7) + d_i, d = {05})
   followed by the multiplicative inverse; that it inverts [sbox] is proved by a sweep. *)
Definition inv_affine (b : N) : N :=
  bits_to_N (fun i => xorb (bit_at b (i + 2)) (xorb (bit_at b (i + 5))
                      (xorb (bit_at b (i + 7)) (N.testbit 0x05 i)))).
Definition inv_sbox (y : N) : N := ginv (inv_affine y).

(* ---- byte-level operations ------------------------------------------------- *)

Definition sboxb (b : byte) : byte := n2b (sbox (b2n b)).
Definition inv_sboxb (b : byte) : byte := n2b (inv_sbox (b2n b)).
Definition gmulb (c : N) (b : byte) : byte := n2b (gmul c (b2n b)).
Notation "a (+) b" := (xor_byte a b) (at level 50, left associativity).

(* 3.4/3.5: the state is an array of four columns; a word is a column *)
Inductive col : Set := Col (r0 r1 r2 r3 : byte).
Inductive state : Set := St (c0 c1 c2 c3 : col).

Definition xor_col (a b : col) : col :=
  match a, b with Col a0 a1 a2 a3, Col b0 b1 b2 b3 => Col (a0 (+) b0) (a1 (+) b1) (a2 (+) b2) (a3 (+) b3) end.
Definition map_col (f : byte -> byte) (a : col) : col :=
  match a with Col a0 a1 a2 a3 => Col (f a0) (f a1) (f a2) (f a3) end.
Definition map_state (f : col -> col) (s : state) : state :=
  match s with St c0 c1 c2 c3 => St (f c0) (f c1) (f c2) (f c3) end.

(* 3.4: s[r,c] = in[r + 4c] *)
Definition bnth (l : bytes) (i : nat) : byte := nth i l x00.
Definition col_of_bytes (l : bytes) (i : nat) : col :=
  Col (bnth l i) (bnth l (i + 1)) (bnth l (i + 2)) (bnth l (i + 3)).
Definition state_of_bytes (l : bytes) : state :=
  St (col_of_bytes l 0) (col_of_bytes l 4) (col_of_bytes l 8) (col_of_bytes l 12).
Definition bytes_of_col (c : col) : bytes := match c with Col a b c d => [a; b; c; d] end.
Definition bytes_of_state (s : state) : bytes :=
  match s with St c0 c1 c2 c3 => bytes_of_col c0 ++ bytes_of_col c1 ++ bytes_of_col c2 ++ bytes_of_col c3 end.

(* 5.1.1 / 5.3.2 *)
Definition SubBytes : state -> state := map_state (map_col sboxb).
Definition InvSubBytes : state -> state := map_state (map_col inv_sboxb).

(* 5.1.2: s'[r,c] = s[r, (c + r) mod 4];  5.3.1: s'[r, (c + r) mod 4] = s[r,c] *)
Definition ShiftRows (s : state) : state :=
  match s with
  | St (Col a0 a1 a2 a3) (Col b0 b1 b2 b3) (Col c0 c1 c2 c3) (Col d0 d1 d2 d3) =>
    St (Col a0 b1 c2 d3) (Col b0 c1 d2 a3) (Col c0 d1 a2 b3) (Col d0 a1 b2 c3)
  end.
Definition InvShiftRows (s : state) : state :=
  match s with
  | St (Col a0 a1 a2 a3) (Col b0 b1 b2 b3) (Col c0 c1 c2 c3) (Col d0 d1 d2 d3) =>
    St (Col a0 d1 c2 b3) (Col b0 a1 d2 c3) (Col c0 b1 a2 d3) (Col d0 c1 b2 a3)
  end.

(* 5.1.3 (5.6) and 5.3.3 (5.10) *)
Definition MixColumn (c : col) : col :=
  match c with
  | Col a0 a1 a2 a3 =>
    Col (gmulb 2 a0 (+) gmulb 3 a1 (+) a2 (+) a3)
        (a0 (+) gmulb 2 a1 (+) gmulb 3 a2 (+) a3)
        (a0 (+) a1 (+) gmulb 2 a2 (+) gmulb 3 a3)
        (gmulb 3 a0 (+) a1 (+) a2 (+) gmulb 2 a3)
  end.
Definition InvMixColumn (c : col) : col :=
  match c with
  | Col a0 a1 a2 a3 =>
    Col (gmulb 14 a0 (+) gmulb 11 a1 (+) gmulb 13 a2 (+) gmulb 9 a3)
        (gmulb 9 a0 (+) gmulb 14 a1 (+) gmulb 11 a2 (+) gmulb 13 a3)
        (gmulb 13 a0 (+) gmulb 9 a1 (+) gmulb 14 a2 (+) gmulb 11 a3)
        (gmulb 11 a0 (+) gmulb 13 a1 (+) gmulb 9 a2 (+) gmulb 14 a3)
  end.
Definition MixColumns : state -> state := map_state MixColumn.
Definition InvMixColumns : state -> state := map_state InvMixColumn.

(* 5.1.4: the round key is four words of the key schedule, one per column *)
Definition AddRoundKey (s k : state) : state :=
  match s, k with St a b c d, St ka kb kc kd => St (xor_col a ka) (xor_col b kb) (xor_col c kc) (xor_col d kd) end.

(* ---- 5.2 key expansion ------------------------------------------------------- *)

Definition SubWord : col -> col := map_col sboxb.
Definition RotWord (w : col) : col := match w with Col a b c d => Col b c d a end.
(* Rcon[i] = (x^(i-1), 0, 0, 0), i >= 1 *)
Fixpoint xpow (n : nat) : N := match n with O => 1 | S k => xtime (xpow k) end.
Definition Rcon (i : nat) : col := Col (n2b (xpow (i - 1))) x00 x00 x00.
Definition zero_col : col := Col x00 x00 x00 x00.

(* The loop of figure 11, with the words produced so far kept most recent first:
   hd racc = w[i-1], nth (Nk-1) racc = w[i-Nk]. *)
Definition kexp_word (Nk i : nat) (racc : list col) : col :=
  let temp := hd zero_col racc in
  let temp :=
    if Nat.eqb (Nat.modulo i Nk) 0 then xor_col (SubWord (RotWord temp)) (Rcon (Nat.div i Nk))
    else if Nat.ltb 6 Nk && Nat.eqb (Nat.modulo i Nk) 4 then SubWord temp
    else temp in
  xor_col (nth (Nk - 1) racc zero_col) temp.
Fixpoint kexp_loop (fuel Nk i : nat) (racc : list col) : list col :=
  match fuel with
  | O => racc
  | S f => kexp_loop f Nk (S i) (kexp_word Nk i racc :: racc)
  end.
Fixpoint key_words (n : nat) (key : bytes) : list col :=
  match n with
  | O => []
  | S k => col_of_bytes key 0 :: key_words k (skipn 4 key)
  end.
(* w[0 .. 4*(Nr+1)-1] for a key of 4*Nk bytes, Nr = Nk + 6 *)
Definition KeyExpansion (key : bytes) : list col :=
  let Nk := Nat.div (length key) 4 in
  let Nr := (Nk + 6)%nat in
  rev (kexp_loop (4 * (Nr + 1) - Nk) Nk Nk (rev (key_words Nk key))).

Fixpoint round_keys (w : list col) : list state :=
  match w with
  | a :: b :: c :: d :: r => St a b c d :: round_keys r
  | _ => []
  end.

(* ---- 5.1 Cipher, 5.3 InvCipher, 5.3.5 EqInvCipher, over a list of round keys -- *)

(* rounds 1 .. Nr; [ks] = round keys 1 .. Nr *)
Fixpoint cipher_rounds (s : state) (ks : list state) : state :=
  match ks with
  | [] => s
  | [kl] => AddRoundKey (ShiftRows (SubBytes s)) kl
  | k :: ks' => cipher_rounds (AddRoundKey (MixColumns (ShiftRows (SubBytes s))) k) ks'
  end.
Definition Cipher_rk (ks : list state) (s : state) : state :=
  match ks with [] => s | k0 :: ks' => cipher_rounds (AddRoundKey s k0) ks' end.

(* [ks] = round keys Nr-1, ..., 0 *)
Fixpoint inv_rounds (s : state) (ks : list state) : state :=
  match ks with
  | [] => s
  | [k0] => AddRoundKey (InvSubBytes (InvShiftRows s)) k0
  | k :: ks' => inv_rounds (InvMixColumns (AddRoundKey (InvSubBytes (InvShiftRows s)) k)) ks'
  end.
Definition InvCipher_rk (ks : list state) (s : state) : state :=
  match rev ks with [] => s | kn :: r => inv_rounds (AddRoundKey s kn) r end.

(* 5.3.5: dw = w with InvMixColumns applied to the round keys 1 .. Nr-1 *)
Fixpoint eqinv_rounds (s : state) (dks : list state) : state :=
  match dks with
  | [] => s
  | [k0] => AddRoundKey (InvShiftRows (InvSubBytes s)) k0
  | k :: r => eqinv_rounds (AddRoundKey (InvMixColumns (InvShiftRows (InvSubBytes s))) k) r
  end.
Fixpoint dw_tail (r : list state) : list state :=     (* Nr-1, ..., 1 transformed; 0 kept *)
  match r with
  | [] => []
  | [k0] => [k0]
  | k :: r' => InvMixColumns k :: dw_tail r'
  end.
Definition EqInvCipher_rk (ks : list state) (s : state) : state :=
  match rev ks with [] => s | kn :: r => eqinv_rounds (AddRoundKey s kn) (dw_tail r) end.

(* AES-128/192/256 on byte strings (key of 16/24/32 bytes, block of 16 bytes) *)
Definition Cipher (key blk : bytes) : bytes :=
  bytes_of_state (Cipher_rk (round_keys (KeyExpansion key)) (state_of_bytes blk)).
Definition InvCipher (key blk : bytes) : bytes :=
  bytes_of_state (InvCipher_rk (round_keys (KeyExpansion key)) (state_of_bytes blk)).
Definition EqInvCipher (key blk : bytes) : bytes :=
  bytes_of_state (EqInvCipher_rk (round_keys (KeyExpansion key)) (state_of_bytes blk)).

(* ---- SP 800-38A ----------------------------------------------------------------- *)

(* data cut into n-byte pieces, the last one possibly shorter *)
Fixpoint pieces (fuel n : nat) (d : bytes) : list bytes :=
  match fuel with
  | O => []
  | S f => match d with [] => [] | _ => firstn n d :: pieces f n (skipn n d) end
  end.
Definition blocks (d : bytes) : list bytes := pieces (length d) 16 d.

Section Modes.
  Variable CIPH CIPHinv : bytes -> bytes.   (* forward / inverse cipher function under the key *)

  (* 6.1 *)
  Definition sp_ecb_encrypt (P : bytes) : bytes := concat (map CIPH (blocks P)).
  Definition sp_ecb_decrypt (C : bytes) : bytes := concat (map CIPHinv (blocks C)).

  (* 6.2: C_1 = CIPH(P_1 + IV), C_j = CIPH(P_j + C_(j-1)); P_j = CIPHinv(C_j) + C_(j-1) *)
  Fixpoint sp_cbc_enc (bs : list bytes) (prev : bytes) : bytes :=
    match bs with [] => [] | P :: r => let C := CIPH (xor_bytes P prev) in C ++ sp_cbc_enc r C end.
  Fixpoint sp_cbc_dec (bs : list bytes) (prev : bytes) : bytes :=
    match bs with [] => [] | C :: r => xor_bytes (CIPHinv C) prev ++ sp_cbc_dec r C end.
  Definition sp_cbc_encrypt (IV P : bytes) : bytes := sp_cbc_enc (blocks P) IV.
  Definition sp_cbc_decrypt (IV C : bytes) : bytes := sp_cbc_dec (blocks C) IV.

  (* 6.3: s-bit CFB with s = 8*sb.  I_1 = IV, I_j = LSB_(b-s)(I_(j-1)) | C#_(j-1),
     O_j = CIPH(I_j), C#_j = P#_j + MSB_s(O_j) *)
  Fixpoint sp_cfb_enc (sb : nat) (segs : list bytes) (I : bytes) : bytes :=
    match segs with
    | [] => []
    | P :: r => let C := xor_bytes P (firstn sb (CIPH I)) in C ++ sp_cfb_enc sb r (skipn sb I ++ C)
    end.
  Fixpoint sp_cfb_dec (sb : nat) (segs : list bytes) (I : bytes) : bytes :=
    match segs with
    | [] => []
    | C :: r => xor_bytes C (firstn sb (CIPH I)) ++ sp_cfb_dec sb r (skipn sb I ++ C)
    end.
  Definition sp_cfb_encrypt (sb : nat) (IV P : bytes) : bytes := sp_cfb_enc sb (pieces (length P) sb P) IV.
  Definition sp_cfb_decrypt (sb : nat) (IV C : bytes) : bytes := sp_cfb_dec sb (pieces (length C) sb C) IV.

  (* 6.4: I_1 = IV, I_j = O_(j-1), O_j = CIPH(I_j), C_j = P_j + O_j, C*_n = P*_n + MSB_u(O_n) *)
  Fixpoint sp_ofb (bs : list bytes) (I : bytes) : bytes :=
    match bs with [] => [] | P :: r => let O := CIPH I in xor_bytes P O ++ sp_ofb r O end.
  Definition sp_ofb_crypt (IV P : bytes) : bytes := sp_ofb (blocks P) IV.

  (* 6.5 with the standard incrementing function of appendix B.1 on all b = 128 bits:
     T_j = [T_1 + j - 1 mod 2^128] *)
  Definition ctr_block (v : N) : bytes := be 16 (v mod 2 ^ 128).
  Fixpoint sp_ctr (bs : list bytes) (t : N) : bytes :=
    match bs with [] => [] | P :: r => xor_bytes P (CIPH (ctr_block t)) ++ sp_ctr r (t + 1) end.
  Definition sp_ctr_crypt (T1 : N) (P : bytes) : bytes := sp_ctr (blocks P) T1.
End Modes.
