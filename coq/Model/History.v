(* Model of the editing operations of a BF3/BEC2 file object (property C11):
     bec2format/bf3file.py : Bf3File.components / comments, _get_config_ndx,
                             set_config, derive_comments_from_config,
                             Bf3Component (description, blob, actual_len, flag)
     bec2format/bec2file.py: Bec2File.auth_blocks (dict keyed by tag),
                             add_auth_block, derive_auth_blocks_from_config,
                             AuthBlock.tag = TAG or tag
   plus the caller's own edits  components.append / components.insert  and a
   write-then-read-back of the whole file.

   Python dicts are association lists in insertion order (assignment to an
   existing key keeps the key's position).  Every operation returns the state
   it leaves behind AND the exception it raised, if any: several of the Python
   methods mutate the object before a later statement raises.

   Abstracted as Section variables, without any assumption: the ConfigId factories
   prj_id / dev_id (C12), str(ConfigId) and .version, the TLV encoding of
   set_config (conf_dict_to_tlv + length prefixes + 00, C10) and the
   session-key cipher used when a file is written and read back.  No proofs
   in this file. *)
From Coq Require Import Strings.String Strings.Ascii.
From Coq Require Import List Bool NArith ZArith Lia.
From Coq Require Import Init.Byte.
From Bec2 Require Import Base.Result Base.Bytes Gen.Consts.
Import ListNotations.
Open Scope N_scope.

(* --- Python str = list of code points ------------------------------------ *)
Definition str := list N.
Definition str_eqb : str -> str -> bool := list_eqb N.eqb.
Definition s2n (s : string) : str := map N_of_ascii (list_ascii_of_string s).

Definition K_CONFIGURATION : str := s2n "Configuration".
Definition K_DEVICESETTINGS : str := s2n "DeviceSettings".
Definition K_BUSADDRESS : str := s2n "RequiresBusAddress".
Definition V_YES : str := s2n "Yes".

(* --- Python dict = association list in insertion order -------------------- *)
Section Dict.
  Context {K V : Type}.
  Variable keq : K -> K -> bool.

  (* d.get(k) *)
  Fixpoint dict_get (k : K) (d : list (K * V)) : option V :=
    match d with
    | [] => None
    | (k', v) :: t => if keq k' k then Some v else dict_get k t
    end.

  (* d[k] = v : replace the value in place, or append *)
  Fixpoint dict_set (k : K) (v : V) (d : list (K * V)) : list (K * V) :=
    match d with
    | [] => [(k, v)]
    | (k', v') :: t => if keq k' k then (k', v) :: t else (k', v') :: dict_set k v t
    end.

  (* d.pop(k, default) : remove the entry if there is one *)
  Fixpoint dict_pop (k : K) (d : list (K * V)) : list (K * V) :=
    match d with
    | [] => []
    | (k', v') :: t => if keq k' k then t else (k', v') :: dict_pop k t
    end.

  (* "d[k] = v  or  d.pop(k, ...)" *)
  Definition dict_upd (k : K) (ov : option V) (d : list (K * V)) : list (K * V) :=
    match ov with Some v => dict_set k v d | None => dict_pop k d end.
End Dict.

(* --- components ----------------------------------------------------------- *)
Record comp : Type := mkComp {
  c_desc : list (N * bytes);   (* description: tag id -> value, insertion order *)
  c_blob : bytes;
  c_len  : N;                  (* actual_len (already "actual_len or len(blob)") *)
  c_enc  : bool                (* encrypt_by_session_key *)
}.

Definition desc_get : N -> list (N * bytes) -> option bytes := dict_get N.eqb.

(* comp.description.get(BF3TAG.TYPE) == bytes([BF3TYPE.CONFIGURATION]) *)
Definition desc_is_config (d : list (N * bytes)) : bool :=
  match desc_get BF3TAG_TYPE d with
  | Some v => bytes_eqb v [n2b BF3TYPE_CONFIGURATION]
  | None => false                      (* no TYPE tag: .get gives None, skipped *)
  end.
Definition is_config (c : comp) : bool := desc_is_config (c_desc c).
Definition non_config (c : comp) : bool := negb (is_config c).

(* del self.components[self._get_config_ndx()] inside try/except KeyError:
   the FIRST matching component is removed; none matching: nothing happens *)
Fixpoint remove_first {A} (p : A -> bool) (l : list A) : list A :=
  match l with
  | [] => []
  | a :: t => if p a then t else a :: remove_first p t
  end.

(* list.insert(i, x) with Python's index normalisation *)
Definition py_insert {A} (i : Z) (x : A) (l : list A) : list A :=
  let n := Z.of_nat (length l) in
  let j := if (i <? 0)%Z then Z.max 0 (i + n) else Z.min i n in
  firstn (Z.to_nat j) l ++ x :: skipn (Z.to_nat j) l.

(* the description dict literal of set_config, in source order *)
Definition cfg_desc : list (N * bytes) :=
  [ (BF3TAG_TYPE, be 1 BF3TYPE_CONFIGURATION);
    (BF3TAG_ENC, be 1 BF3ENC_SESSIONKEY);
    (BF3TAG_FMT, be 1 BF3FMT_TLVCFG);
    (BF3TAG_REBOOT, be 1 1) ].

(* Bf3Component.__init__ : self.actual_len = actual_len or len(blob) *)
Definition len_or (actual : N) (blob : bytes) : N :=
  if actual =? 0 then blen blob else actual.

Definition cfg_comp (blob : bytes) : comp :=
  mkComp cfg_desc blob (len_or (blen blob) blob) true.

(* --- configuration dictionaries ------------------------------------------ *)
(* ConfDict = Dict[Tuple[int, Optional[int]], bytes]; content None = delete *)
Definition config := list ((N * option N) * option bytes).
Definition ckey_eqb (a b : N * option N) : bool :=
  N.eqb (fst a) (fst b) && option_eqb N.eqb (snd a) (snd b).

(* config.get((k, v)) with "missing" and "None" identified: both uses below
   (truthiness, `is not None`) do not distinguish them *)
Definition cfg_get (c : config) (k v : N) : option bytes :=
  match dict_get ckey_eqb (k, Some v) c with
  | Some (Some b) => Some b
  | _ => None
  end.

(* if config.get((0x0620, 0x20), 0): a non-empty bytes object is truthy *)
Definition bus_flag (c : config) : bool :=
  match cfg_get c 0x0620 0x20 with
  | Some (_ :: _) => true
  | _ => false
  end.

(* --- authentication blocks ------------------------------------------------ *)
Inductive auth_block : Type :=
| ABCust                              (* InitCustKeyAuthBlock() *)
| ABEcc (key_selector : N)            (* InitEccAuthBlock(key_selector) *)
| ABUpdate (code : bytes) (version : N)  (* UpdateAuthBlock(code, version) *)
| ABUnknown (tag : N) (raw : bytes).  (* UnknownAuthBlock(tag, raw) *)

(* self.tag = self.TAG or tag *)
Definition ab_tag (b : auth_block) : N :=
  match b with
  | ABCust => TAG_CUSTKEY
  | ABEcc _ => TAG_ECC
  | ABUpdate _ _ => TAG_UPDATE
  | ABUnknown t _ => t
  end.

(* "kind" of a block = its class (unknown blocks: class + tag) *)
Definition same_kind (a b : auth_block) : bool :=
  match a, b with
  | ABCust, ABCust => true
  | ABEcc _, ABEcc _ => true
  | ABUpdate _ _, ABUpdate _ _ => true
  | ABUnknown t _, ABUnknown u _ => N.eqb t u
  | _, _ => false
  end.

(* Bec2File.add_auth_block : self.auth_blocks[auth_block.tag] = auth_block *)
Definition add_auth (b : auth_block) (a : list (N * auth_block)) : list (N * auth_block) :=
  dict_set N.eqb (ab_tag b) b a.

(* --- state and operations ------------------------------------------------- *)
Record state : Type := mkState {
  comps    : list comp;
  comments : list (str * str);
  auths    : list (N * auth_block)
}.
Definition with_comps (s : state) (cs : list comp) : state := mkState cs (comments s) (auths s).
Definition with_comments (s : state) (cm : list (str * str)) : state := mkState (comps s) cm (auths s).
Definition with_auths (s : state) (a : list (N * auth_block)) : state := mkState (comps s) (comments s) a.

Inductive op : Type :=
| SetConfig (c : config) (extra : list bytes)   (* bf3.set_config(c, extra) *)
| DeriveComments (c : config)                   (* bf3.derive_comments_from_config(c) *)
| DeriveAuth (c : config) (cust_key_support : bool)  (* bec2.derive_auth_blocks_from_config(c, flag) *)
| Append (x : comp)                             (* bf3.components.append(x) *)
| Insert (i : Z) (x : comp)                     (* bf3.components.insert(i, x) *)
| WriteRead.                                    (* write the file, continue with the file read back *)

Fixpoint map_res {A B} (f : A -> result B) (l : list A) : result (list B) :=
  match l with
  | [] => Ok []
  | a :: t => let* b := f a in let* r := map_res f t in Ok (b :: r)
  end.

(* crypto.pad : data + zeros(-len(data) % 16)  (pad_length is generated from the source) *)
Definition pad16 (b : bytes) : bytes :=
  b ++ zeros (Z.to_nat (pad_length (Z.of_N (blen b)))).

Definition desc_is_enc (d : list (N * bytes)) : bool :=
  match desc_get BF3TAG_ENC d with
  | Some v => bytes_eqb v (be 1 BF3ENC_SESSIONKEY)
  | None => false
  end.

Section History.
  Variable id : Type.                                (* ConfigId objects *)
  Variable prj_id dev_id : config -> result id.      (* ConfigId.create_from_prj_settings / _dev_settings *)
  Variable id_str : id -> str.                       (* str(config_id) *)
  Variable id_version : id -> N.                     (* config_id.version *)
  Variable conf_blob : config -> list bytes -> result bytes.  (* the tlvcfg_blob of set_config *)
  Variable senc sdec : bytes -> result bytes.        (* session-key cipher of the written file *)

  (* Bf3File.set_config: delete the first configuration component (if any),
     THEN encode (may raise), then append the new component *)
  Definition set_config (c : config) (x : list bytes) (s : state) : state * option err :=
    let cs := remove_first is_config (comps s) in
    match conf_blob c x with
    | Err e => (with_comps s cs, Some e)
    | Ok b => (with_comps s (cs ++ [cfg_comp b]), None)
    end.

  (* try: i = factory(config)  except Missing...: comments.pop(key, "")  else: comments[key] = str(i) *)
  Definition id_comment (r : result id) (missing : err) : result (option str) :=
    match r with
    | Ok i => Ok (Some (id_str i))
    | Err e => if err_eqb e missing then Ok None else Err e
    end.

  (* the value each derived key must have after derive_comments(c): a function of c alone *)
  Definition derived_conf (c : config) : result (option str) := id_comment (prj_id c) EMissPrj.
  Definition derived_dev (c : config) : result (option str) := id_comment (dev_id c) EMissDev.
  Definition derived_bus (c : config) : option str := if bus_flag c then Some V_YES else None.

  (* what dict.get(k) of the comments must return after a derive_comments(c)
     that returned normally, for the three derived keys *)
  Definition derived_value (c : config) (k : str) : option str :=
    if str_eqb k K_CONFIGURATION then match derived_conf c with Ok v => v | Err _ => None end
    else if str_eqb k K_DEVICESETTINGS then match derived_dev c with Ok v => v | Err _ => None end
    else if str_eqb k K_BUSADDRESS then derived_bus c
    else None.

  Definition derive_comments (c : config) (s : state) : state * option err :=
    match derived_conf c with
    | Err e => (s, Some e)
    | Ok v1 =>
      let cm1 := dict_upd str_eqb K_CONFIGURATION v1 (comments s) in
      match derived_dev c with
      | Err e => (with_comments s cm1, Some e)
      | Ok v2 =>
        let cm2 := dict_upd str_eqb K_DEVICESETTINGS v2 cm1 in
        (with_comments s (dict_upd str_eqb K_BUSADDRESS (derived_bus c) cm2), None)
      end
    end.

  (* project id, else device id, else None; other exceptions propagate *)
  Definition config_id (c : config) : result (option id) :=
    match prj_id c with
    | Ok i => Ok (Some i)
    | Err e =>
      if err_eqb e EMissPrj then
        match dev_id c with
        | Ok i => Ok (Some i)
        | Err e' => if err_eqb e' EMissDev then Ok None else Err e'
        end
      else Err e
    end.

  (* the update block derive_auth adds: exists iff security code and id both exist *)
  Definition update_block (c : config) : result (option auth_block) :=
    let* oi := config_id c in
    match cfg_get c 0x0202 0x82, oi with
    | Some code, Some i => Ok (Some (ABUpdate code (id_version i)))
    | _, _ => Ok None
    end.

  Definition init_block (cust : bool) : auth_block := if cust then ABCust else ABEcc 0.

  (* Bec2File.derive_auth_blocks_from_config: the init block is added before
     the factories can raise *)
  Definition derive_auth (c : config) (cust : bool) (s : state) : state * option err :=
    let a1 := add_auth (init_block cust) (auths s) in
    match update_block c with
    | Err e => (with_auths s a1, Some e)
    | Ok None => (with_auths s a1, None)
    | Ok (Some u) => (with_auths s (add_auth u a1), None)
    end.

  (* One component through write + read:  get_raw_data encrypts pad(blob) when
     the FLAG is set; from_binary decrypts when the ENC TAG says session key.
     Directory framing, CMACs and the hex text layer are the subject of C01-C06
     and are not modelled here. *)
  Definition reread_comp (c : comp) : result comp :=
    let* raw := (if c_enc c then senc (pad16 (c_blob c)) else Ok (c_blob c)) in
    if desc_is_enc (c_desc c) then
      let* b := sdec raw in Ok (mkComp (c_desc c) b (len_or (c_len c) b) true)
    else Ok (mkComp (c_desc c) raw (len_or (c_len c) raw) false).

  (* comments and auth blocks come back unchanged (keys without ':' and values
     without surrounding blanks; every auth block has a decryptor) *)
  Definition write_read (s : state) : state * option err :=
    match map_res reread_comp (comps s) with
    | Ok cs => (with_comps s cs, None)
    | Err e => (s, Some e)
    end.

  Definition step (o : op) (s : state) : state * option err :=
    match o with
    | SetConfig c x => set_config c x s
    | DeriveComments c => derive_comments c s
    | DeriveAuth c m => derive_auth c m s
    | Append x => (with_comps s (comps s ++ [x]), None)
    | Insert i x => (with_comps s (py_insert i x (comps s)), None)
    | WriteRead => write_read s
    end.

  (* a history; an operation that raised leaves its partial state behind and
     the caller carries on *)
  Fixpoint run (h : list op) (s : state) : state :=
    match h with
    | [] => s
    | o :: t => run t (fst (step o s))
    end.

  Fixpoint trace (h : list op) (s : state) : list (state * option err) :=
    match h with
    | [] => []
    | o :: t => let r := step o s in r :: trace t (fst r)
    end.
End History.

(* --- vocabulary of the property ------------------------------------------- *)
Definition count_config (s : state) : nat := length (filter is_config (comps s)).
Definition at_most_one_config (s : state) : Prop := (count_config s <= 1)%nat.

(* the caller's own edits add firmware components only (with or without TYPE tag) *)
Definition allowed (o : op) : Prop :=
  match o with
  | Append x | Insert _ x => is_config x = false
  | _ => True
  end.

Definition derived_keys : list str := [K_CONFIGURATION; K_DEVICESETTINGS; K_BUSADDRESS].
Definition is_derived (k : str) : bool := existsb (str_eqb k) derived_keys.
Definition other_comments (cm : list (str * str)) : list (str * str) :=
  filter (fun p => negb (is_derived (fst p))) cm.

Definition dict_wf {K V} (d : list (K * V)) : Prop := NoDup (map fst d).
(* auth_blocks = {block.tag: block for ...}: distinct keys, each key the tag of its block *)
Definition auth_wf (a : list (N * auth_block)) : Prop :=
  NoDup (map fst a) /\ Forall (fun p => fst p = ab_tag (snd p)) a.
Definition count_kind (b : auth_block) (a : list (N * auth_block)) : nat :=
  length (filter (fun p => same_kind b (snd p)) a).

(* what write + read does to a component whose flag and ENC tag agree, when the
   cipher decrypts what it encrypted: an encrypted blob comes back zero-padded *)
Definition pad_enc (c : comp) : comp :=
  let b := if c_enc c then pad16 (c_blob c) else c_blob c in
  mkComp (c_desc c) b (len_or (c_len c) b) (c_enc c).
Definition enc_consistent (c : comp) : Prop := c_enc c = desc_is_enc (c_desc c).

(* --- comparison functions for the correspondence harness ------------------ *)
Definition desc_eqb : list (N * bytes) -> list (N * bytes) -> bool :=
  list_eqb (prod_eqb N.eqb bytes_eqb).
Definition comp_eqb (a b : comp) : bool :=
  desc_eqb (c_desc a) (c_desc b) && bytes_eqb (c_blob a) (c_blob b) &&
  N.eqb (c_len a) (c_len b) && Bool.eqb (c_enc a) (c_enc b).
Definition ab_eqb (a b : auth_block) : bool :=
  match a, b with
  | ABCust, ABCust => true
  | ABEcc s, ABEcc t => N.eqb s t
  | ABUpdate c v, ABUpdate d w => bytes_eqb c d && N.eqb v w
  | ABUnknown t r, ABUnknown u q => N.eqb t u && bytes_eqb r q
  | _, _ => false
  end.
Definition state_eqb (a b : state) : bool :=
  list_eqb comp_eqb (comps a) (comps b) &&
  list_eqb (prod_eqb str_eqb str_eqb) (comments a) (comments b) &&
  list_eqb (prod_eqb N.eqb ab_eqb) (auths a) (auths b).
Definition outcome_eqb (a b : state * option err) : bool :=
  state_eqb (fst a) (fst b) && option_eqb err_eqb (snd a) (snd b).

(* finite oracle tables (the harness fills them from the implementation) *)
Definition cfg_eqb : config -> config -> bool :=
  list_eqb (prod_eqb ckey_eqb (option_eqb bytes_eqb)).
Definition oracle {A B} (eqb : A -> A -> bool) (tbl : list (A * B)) (dflt : B) (x : A) : B :=
  match find (fun p => eqb (fst p) x) tbl with Some p => snd p | None => dflt end.

(* --- a small concrete instantiation (non-vacuity examples only) ----------- *)
Definition toy_id : Type := (str * N)%type.
Definition toy_prj (c : config) : result toy_id :=
  match cfg_get c 0x0620 0x07 with
  | Some v => Ok (s2n "prj", from_be v)
  | None => Err EMissPrj
  end.
Definition toy_dev (c : config) : result toy_id :=
  match cfg_get c 0x0620 0x04 with
  | Some v => Ok (s2n "dev", from_be v)
  | None => Err EMissDev
  end.
Definition toy_blob (c : config) (x : list bytes) : result bytes :=
  Ok (concat (map (fun kv => match snd kv with Some b => b | None => [] end) c) ++ concat x ++ [x00]).
Definition toy_cipher (b : bytes) : result bytes := Ok b.
