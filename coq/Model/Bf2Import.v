(* Model of the BF2 importer of bec2format/bf3file.py:
     bf2_unpack_payload, bf2_convert_payload, exec_bf2instrs, pfid2_filter_to_str,
     annotations, bf2_import (with emit_bf3comp) on a token list, and
     parse_bf2_file / hex2bin on text.
   Tables (BF2_TAGTYPE_MAP, is_known_tagtype, BF2_INTERFACES, HWCID_MAP,
   PFID2FILTER_TO_HWCID_SPECIAL_CASES, BF3TAG/FMT/TYPE/INTF) come from Gen/Consts.v,
   which is regenerated from the source.  Python 3.12 semantics (slices are
   hashable: dict[2:] is a KeyError). *)
From Coq Require Import Ascii String.
From Coq Require Import List Bool NArith ZArith Lia.
From Coq Require Import Init.Byte.
From Bec2 Require Import Base.Result Base.Bytes Base.Reader Gen.Consts Model.Bf2Str.
Import ListNotations.
Open Scope N_scope.

(* Bf2BinLine(fwtagtype, fwtagndx, fwtag, rawdata) *)
Record line := mkLine { l_type : N; l_ndx : N; l_tag : bytes; l_raw : bytes }.

Fixpoint foldM {A B} (f : A -> B -> result A) (l : list B) (a : A) : result A :=
  match l with
  | [] => Ok a
  | x :: t => let* a' := f a x in foldM f t a'
  end.

Fixpoint mapM {A B} (f : A -> result B) (l : list A) : result (list B) :=
  match l with
  | [] => Ok []
  | x :: t => let* y := f x in let* r := mapM f t in Ok (y :: r)
  end.

(* stable insertion sort (Python sorted) *)
Fixpoint insert_by {A} (leb : A -> A -> bool) (x : A) (l : list A) : list A :=
  match l with
  | [] => [x]
  | y :: t => if leb x y then x :: l else y :: insert_by leb x t
  end.
Definition sort_by {A} (leb : A -> A -> bool) (l : list A) : list A :=
  fold_right (insert_by leb) [] l.

(* ------------------------------------------------------------------------------- *)
(* bf2_unpack_payload                                                              *)

(* one data line's tag: length byte (= payload length + 2), 16-bit offset, payload.
   payload_len = read_int(1) - 2 may be negative; read(negative) returns all the rest *)
Definition line_fields (l : line) : result (Z * N * bytes) :=
  let* (n, r1) := rd_read_int 1 (new_reader (l_tag l)) in
  let plen := (Z.of_N n - 2)%Z in
  let* (o, r2) := rd_read_int 2 r1 in
  let* payload :=
    if (plen <? 0)%Z then Ok (fst (rd_read_all r2))
    else let* (p, _) := rd_read (Z.to_N plen) r2 in Ok p in
  Ok (plen, o, payload).

(* loop state: blocks (dict, insertion order), current block = None while
   cur_block is empty, else Some (cur_block_start_adr, chunks newest first),
   cur_block_end_adr *)
Record ustate := mkU { u_blocks : list (Z * bytes); u_cur : option (Z * list bytes); u_end : Z }.

Definition flush (blocks : list (Z * bytes)) (cur : option (Z * list bytes)) : list (Z * bytes) :=
  match cur with
  | None => blocks
  | Some (a, chunks) => dset Z.eqb a (concat (rev chunks)) blocks
  end.

Definition line_offs (start_type : N) (l : line) (o : N) : Z :=
  ((Z.of_N (l_type l) - Z.of_N start_type) * 65536 + Z.of_N o)%Z.

Definition unpack_step (start_type : N) (s : ustate) (l : line) : result ustate :=
  let* (plen, o, payload) := line_fields l in
  let offs := line_offs start_type l o in
  let '(blocks', cur') :=
    match u_cur s with
    | Some (a, chunks) =>
      if negb (offs =? u_end s)%Z
      then (flush (u_blocks s) (u_cur s), Some (offs, [payload]))
      else (u_blocks s, Some (a, payload :: chunks))
    | None => (u_blocks s, Some (offs, [payload]))
    end in
  Ok (mkU blocks' cur' (offs + plen)%Z).

Definition unpack (ls : list line) : result (list (Z * bytes)) :=
  match ls with
  | [] => Err EIndex                                  (* bf2lines[0] *)
  | l0 :: _ =>
    let* s := foldM (unpack_step (l_type l0)) ls (mkU [] None 0%Z) in
    Ok (flush (u_blocks s) (u_cur s))
  end.

(* ------------------------------------------------------------------------------- *)
(* bf2_convert_payload                                                             *)

Definition enc_block (kv : Z * bytes) : result bytes :=
  let* a := to_bytes_Z 4 (fst kv) in
  let* n := to_bytes 4 (blen (snd kv)) in
  Ok (a ++ n ++ snd kv).

Definition convert (ls : list line) (fmt : N) : result bytes :=
  if fmt =? BF3FMT_BF2COMPATIBLE then Ok (concat (map l_raw ls))
  else if fmt =? BF3FMT_BLOB then
    let* blocks := unpack ls in
    if negb (blen blocks =? 1) || negb (dmem Z.eqb 0%Z blocks) then Err EBf3
    else match dget Z.eqb 0%Z blocks with Some b => Ok b | None => Err EKey end
  else if fmt =? BF3FMT_MEMORYIMAGE then
    let* blocks := unpack ls in
    let* parts := mapM enc_block (sort_by (fun a b => (fst a <=? fst b)%Z) blocks) in
    Ok (concat parts)
  else Err ENotImpl.

(* ------------------------------------------------------------------------------- *)
(* pfid2_filter_to_str                                                             *)

(* {v: k for k, v in m.items()}.get(v): the last entry with that value wins *)
Definition rev_lookup (v : N) (m : list (str * N)) : option str :=
  fold_left (fun acc p => if snd p =? v then Some (fst p) else acc) m None.

Definition s_0x : str := Eval vm_compute in lit "0x".
Definition s_or : str := Eval vm_compute in lit " | ".
Definition s_and : str := Eval vm_compute in lit " & ".

Definition hwcid_name (hw : N) : str :=
  match rev_lookup hw HWCID_MAP with Some n => n | None => s_0x ++ hex_str4 hw end.

Definition entry_str (e : N) : str :=
  let nm := hwcid_name (N.land e 0x3FFF) in
  if N.testbit e 14 then 33 :: nm else nm.

(* int.from_bytes(f[pos:pos+2], "big") for pos in range(2, len(f), 2), on f[2:] *)
Fixpoint entries (b : bytes) : list N :=
  match b with
  | x :: y :: t => (b2n x * 256 + b2n y) :: entries t
  | [x] => [b2n x]
  | [] => []
  end.

Definition group_str (hs : list str) : str :=
  match hs with
  | [a] => a
  | _ => [40] ++ join s_or hs ++ [41]
  end.

Fixpoint filter_loop (es : list N) (group_strs hwcid_strs : list str) : list str :=
  match es with
  | [] => group_strs            (* entries of an unterminated last group are not rendered *)
  | e :: t =>
    let hs := hwcid_strs ++ [entry_str e] in
    if negb (N.testbit e 15) then filter_loop t (group_strs ++ [group_str hs]) []
    else filter_loop t group_strs hs
  end.

Definition filter_header_ok (f : bytes) : bool :=
  match f with
  | h :: n :: _ => (b2n h =? 1) && (2 + b2n n * 2 =? blen f)
  | _ => false
  end.

Definition pfid2_filter_to_str (f : bytes) : result str :=
  if negb (filter_header_ok f) then Err EBf3
  else Ok (join s_and (filter_loop (entries (dropN 2 f)) [] [])).

(* The expression the renderer writes, as a tree: AND of groups, group = OR of
   possibly negated hardware ids; printer; evaluation over a hardware set. *)
Record atom := mkAtom { a_neg : bool; a_id : N }.
Definition expr := list (list atom).

Definition entry_atom (e : N) : atom := mkAtom (N.testbit e 14) (N.land e 0x3FFF).

Fixpoint filter_groups (es : list N) (cur : list atom) : expr :=
  match es with
  | [] => []
  | e :: t =>
    if negb (N.testbit e 15) then (cur ++ [entry_atom e]) :: filter_groups t []
    else filter_groups t (cur ++ [entry_atom e])
  end.
Definition filter_expr (f : bytes) : expr := filter_groups (entries (dropN 2 f)) [].

Definition print_atom (a : atom) : str :=
  if a_neg a then 33 :: hwcid_name (a_id a) else hwcid_name (a_id a).
Definition print_group (g : list atom) : str := group_str (map print_atom g).
Definition print_expr (e : expr) : str := join s_and (map print_group e).

Definition eval_atom (hw : N -> bool) (a : atom) : bool := xorb (a_neg a) (hw (a_id a)).
Definition eval_expr (hw : N -> bool) (e : expr) : bool :=
  forallb (fun g => existsb (eval_atom hw) g) e.

(* ------------------------------------------------------------------------------- *)
(* exec_bf2instrs                                                                  *)

(* an instruction's parameters: dict from a "#>" line, str from a "##" line *)
Inductive pval := PStr (s : str) | PDict (d : list (str * str)).
Definition idict := list (str * pval).
Definition cdict := list (str * pval).
Definition desc := list (N * bytes).

(* p[key] with a str key *)
Definition sub_key (p : pval) (k : str) : result str :=
  match p with
  | PStr _ => Err EType
  | PDict d => match dget str_eqb k d with Some v => Ok v | None => Err EKey end
  end.
(* p[a:b] *)
Definition sliceable (p : pval) : result str :=
  match p with
  | PStr s => Ok s
  | PDict _ => Err EKey
  end.

Definition s_REBOOT : str := Eval vm_compute in lit "REBOOT".
Definition s_CRC : str := Eval vm_compute in lit "CRC".
Definition s_SELECT : str := Eval vm_compute in lit "SELECT".
Definition s_FILTER : str := Eval vm_compute in lit "FILTER".
Definition s_CHECK_FWVER : str := Eval vm_compute in lit "CHECK_FWVER".
Definition s_VERSIONDESC : str := Eval vm_compute in lit "VERSIONDESC".
Definition s_Firmware : str := Eval vm_compute in lit "Firmware".
Definition s_FirmwareId : str := Eval vm_compute in lit "FirmwareId".
Definition s_FirmwareVersion : str := Eval vm_compute in lit "FirmwareVersion".
Definition s_Creator : str := Eval vm_compute in lit "Creator".
Definition s_converter : str := Eval vm_compute in lit " + bf2-to-bf3-converter".
Definition s_Bf3Update : str := Eval vm_compute in lit "Bf3Update".
Definition s_SELECT_IF : str := Eval vm_compute in lit "SELECT_IF".
Definition s_PROTOCOL : str := Eval vm_compute in lit "PROTOCOL".
Definition s_star : str := Eval vm_compute in lit "*".
Definition s_Dminus : str := Eval vm_compute in lit "D-".
Definition s_0101 : str := Eval vm_compute in lit "01 01".
Definition s_load : str := Eval vm_compute in lit "load".

Definition desc_get (t : N) (d : desc) : result bytes :=
  match dget N.eqb t d with Some b => Ok b | None => Err EKey end.

Definition byte_of_Z (v : Z) : result byte :=
  if (v <? 0)%Z || (255 <? v)%Z then Err EValue else Ok (n2b (Z.to_N v)).

Definition exec_reboot (i : idict) (d : desc) : idict * desc :=
  if dmem str_eqb s_REBOOT i
  then (ddel str_eqb s_REBOOT i, dset N.eqb BF3TAG_REBOOT [x01] d)
  else (i, d).

Definition exec_crc (i : idict) (d : desc) : result (idict * desc) :=
  match dget str_eqb s_CRC i with
  | None => Ok (i, d)
  | Some crcval =>
    let i := ddel str_eqb s_CRC i in
    let* s := sliceable crcval in
    let* v := py_int 16 (dropN 2 s) in
    let* b := to_bytes_Z 4 v in
    Ok (i, dset N.eqb BF3TAG_CRC b d)
  end.

Definition exec_select (i : idict) (d : desc) : result desc :=
  match dget str_eqb s_SELECT i with
  | None => Ok d
  | Some sel =>
    let* f := sub_key sel s_FILTER in
    let* pf := hex2bin f in
    let d := dset N.eqb BF3TAG_PFID2 pf d in
    let* ty := desc_get BF3TAG_TYPE d in
    if bytes_eqb ty [n2b BF3TYPE_PERIPHERAL] then
      let pfs := hex_upper_sp pf in
      let* hw :=
        match dget str_eqb pfs PFID2FILTER_TO_HWCID_SPECIAL_CASES with
        | Some h => to_bytes 2 h
        | None => if starts_with s_0101 pfs then Ok (lastN 2 pf) else Err EBf3
        end in
      Ok (dset N.eqb BF3TAG_HWCID hw d)
    else Ok d
  end.

Definition exec_check_fwver (i : idict) (d : desc) : result (idict * desc) :=
  match dget str_eqb s_CHECK_FWVER i with
  | None => Ok (i, d)
  | Some cf =>
    let i := ddel str_eqb s_CHECK_FWVER i in
    let* vd := sub_key cf s_VERSIONDESC in
    if str_eqb vd s_star then Ok (i, d) else
    let* version := hex2bin vd in
    match nth_error version 2 with
    | None => Err EIndex
    | Some n => Ok (i, dset N.eqb BF3TAG_FWVER (takeN (b2n n) (dropN 3 version)) d)
    end
  end.

Definition exec_firmware (i : idict) (d : desc) (c : cdict) : result (desc * cdict) :=
  match dget str_eqb s_Firmware i with
  | None => Ok (d, c)
  | Some fw =>
    let* s := sliceable fw in
    let fid := slice 0 4 s in
    let fver := slice 15 22 s in
    let c := dset str_eqb s_FirmwareVersion (PStr fver) (dset str_eqb s_FirmwareId (PStr fid) c) in
    if starts_with s_Dminus fver then Ok (d, c) else
    let* idv := py_int 10 fid in
    let* idb := to_bytes_Z 2 idv in
    let* vs := mapM (py_int 10) (split_on 46 fver) in
    let* vb := mapM byte_of_Z vs in
    let* ty := desc_get BF3TAG_TYPE d in
    if bytes_eqb ty [n2b BF3TYPE_LOADER] || bytes_eqb ty [n2b BF3TYPE_MAIN]
    then Ok (dset N.eqb BF3TAG_FWVER (idb ++ vb) d, c)
    else Ok (d, c)
  end.

Definition exec_creator (i : idict) (c : cdict) : result cdict :=
  match dget str_eqb s_Creator i with
  | None => Ok c
  | Some (PStr s) => Ok (dset str_eqb s_Creator (PStr (s ++ s_converter)) c)
  | Some (PDict _) => Err EType
  end.

Definition exec_bf3update (i : idict) (c : cdict) : cdict :=
  match dget str_eqb s_Bf3Update i with
  | None => c
  | Some v => dset str_eqb s_Bf3Update v c
  end.

(* None = UnsupportedBf2InstrError raised (as the last action) *)
Definition exec_select_if (i : idict) (d : desc) : result (option desc) :=
  match dget str_eqb s_SELECT_IF i with
  | None => Ok (Some d)
  | Some si =>
    let* proto := sub_key si s_PROTOCOL in
    if str_eqb proto s_star then Ok (Some d) else
    match dget str_eqb proto BF2_INTERFACES with
    | None => Ok None
    | Some intf => let* ib := to_bytes 1 intf in Ok (Some (dset N.eqb BF3TAG_INTF ib d))
    end
  end.

(* exec_bf2instrs: the mutated instruction dict and comments, and the description
   (None when UnsupportedBf2InstrError was raised; everything before it has
   already happened then). *)
Definition exec (i : idict) (d : desc) (c : cdict) : result (idict * cdict * option desc) :=
  let '(i, d) := exec_reboot i d in
  let* (i, d) := exec_crc i d in
  let* d := exec_select i d in
  let* (i, d) := exec_check_fwver i d in
  let* (d, c) := exec_firmware i d c in
  let* c := exec_creator i c in
  let c := exec_bf3update i c in
  let* od := exec_select_if i d in
  Ok (i, c, od).

(* ------------------------------------------------------------------------------- *)
(* annotations                                                                     *)

Record comp := mkComp { c_desc : desc; c_blob : bytes }.

Definition s_Main : str := Eval vm_compute in lit "Main Firmware".
Definition s_Loader : str := Eval vm_compute in lit " Loader Firmware".
Definition s_HWC : str := Eval vm_compute in lit "HWC 0x".
Definition s_SM : str := Eval vm_compute in lit "SM".
Definition s_BGM : str := Eval vm_compute in lit "BGM".
Definition s_Version : str := Eval vm_compute in lit " Version ".
Definition s_Firmware_sp : str := Eval vm_compute in lit " Firmware".
Definition s_pfid_open : str := Eval vm_compute in lit "    [PFID2-Filter: ".
Definition s_Component : str := Eval vm_compute in lit "Component".

Definition version_str (name : str) (ov : option bytes) : result str :=
  match ov with
  | None | Some [] => Ok []
  | Some v =>
    if starts_with s_SM name && (4 <=? blen v) then
      match v with
      | a :: b :: c :: d :: _ =>
        Ok ([32] ++ dec_str (b2n a) ++ [46] ++ dec_str (b2n b) ++ [46] ++ dec_str (b2n c)
            ++ [46] ++ dec_str (b2n d))
      | _ => Err EIndex
      end
    else if starts_with s_BGM name && (7 <=? blen v) then
      let* s := utf8_decode (map b2n v) in Ok (s_Version ++ s)
    else Ok (s_Version ++ hex_upper v)
  end.

Definition annotation (c : comp) : result str :=
  let d := c_desc c in
  let* tyb := desc_get BF3TAG_TYPE d in
  let ty := from_be tyb in
  let* base :=
    if ty =? BF3TYPE_MAIN then Ok s_Main
    else if ty =? BF3TYPE_LOADER then
      (* "if BF3TAG.INTF not in comp.description: raise Bf3FileFormatError" *)
      let* ib := match dget N.eqb BF3TAG_INTF d with Some b => Ok b | None => Err EBf3 end in
      match rev_lookup (from_be ib) BF3INTF_names with
      | Some nm => Ok (nm ++ s_Loader)
      | None => Err EKey
      end
    else if ty =? BF3TYPE_PERIPHERAL then
      let* hb := desc_get BF3TAG_HWCID d in
      let hw := from_be hb in
      let name := match rev_lookup hw HWCID_MAP with Some n => n | None => s_HWC ++ hex_str hw end in
      let* vs := version_str name (dget N.eqb BF3TAG_FWVER d) in
      Ok (name ++ s_Firmware_sp ++ vs)
    else Err EBf3 in
  match dget N.eqb BF3TAG_PFID2 d with
  | None => Ok base
  | Some f => let* fs := pfid2_filter_to_str f in Ok (base ++ s_pfid_open ++ fs ++ [93])
  end.

Fixpoint annotations_from (ndx : N) (cs : list comp) : result (list (str * pval)) :=
  match cs with
  | [] => Ok []
  | c :: t =>
    let* a := annotation c in
    let* r := annotations_from (ndx + 1) t in
    Ok ((s_Component ++ dec_str ndx, PStr a) :: r)
  end.
Definition annotations (cs : list comp) : result (list (str * pval)) := annotations_from 0 cs.

(* ------------------------------------------------------------------------------- *)
(* bf2_import on tokens                                                            *)

Inductive token :=
| Load (ls : list line)               (* ("load", fwdata) *)
| Instr (name : str) (p : pval).      (* (cmd, params) from "#>", (name, value) from "##" *)

(* the closed sections, oldest first: the lines each consumed and the component it
   became (None: ignored tag type or unsupported interface).  Bf3File.components
   is the list of the Some entries. *)
Definition log := list (option comp * list line).

Record st := mkSt { s_data : list line; s_instrs : idict; s_log : log; s_comments : cdict }.

Definition caught (e : err) : bool :=       (* except (ValueError, IndexError, KeyError) *)
  is_value e || err_eqb e EIndex || err_eqb e EKey.
(* emit_bf3comp: except (ValueError, IndexError, KeyError, OverflowError, TypeError) *)
Definition caught_emit (e : err) : bool := caught e || err_eqb e EOverflow || err_eqb e EType.

Definition nonempty {A} (l : list A) : bool := match l with [] => false | _ => true end.

(* emit_bf3comp: new instruction dict and comments; Some component when one was
   appended (and the data cleared), None when the section was skipped *)
Definition emit (data : list line) (i : idict) (c : cdict) : result (idict * cdict * option comp) :=
  match data with
  | [] => Err EBf3
  | l0 :: _ =>
    match dget N.eqb (l_type l0) BF2_TAGTYPE_MAP with
    | None => Err EUnsupTagType
    | Some (None, _, _, _) => Ok (i, c, None)
    | Some (Some ty, hwcid, ofmt, intf) =>
      match ofmt with
      | None => Err EType              (* not reachable with the table in the source *)
      | Some fmt =>
        let* fmtb := to_bytes 1 fmt in
        let* tyb := to_bytes 1 ty in
        let d0 := [(BF3TAG_FMT, fmtb); (BF3TAG_TYPE, tyb)] in
        let* d1 := match hwcid with
                   | None => Ok d0
                   | Some h => let* hb := to_bytes 2 h in Ok (dset N.eqb BF3TAG_HWCID hb d0)
                   end in
        let* d2 := match intf with
                   | None => Ok d1
                   | Some x => let* xb := to_bytes 1 x in Ok (dset N.eqb BF3TAG_INTF xb d1)
                   end in
        match exec i d2 c with
        | Err e => if caught_emit e then Err EBf3 else Err e
        | Ok (i', c', None) => Ok (i', c', None)
        | Ok (i', c', Some d) =>
          let* content := convert data fmt in
          Ok (i', c', Some (mkComp d content))
        end
      end
    end
  end.

(* emit from the instruction path: data is only cleared by a successful emission *)
Definition emit_keep (s : st) : result st :=
  let* (i, c, oc) := emit (s_data s) (s_instrs s) (s_comments s) in
  match oc with
  | Some cp => Ok (mkSt [] i (s_log s ++ [(Some cp, s_data s)]) c)
  | None => Ok (mkSt (s_data s) i (s_log s) c)
  end.

(* emit from the load path and at the end: data is dropped in every case *)
Definition emit_drop (s : st) : result st :=
  let* (i, c, oc) := emit (s_data s) (s_instrs s) (s_comments s) in
  Ok (mkSt [] i (s_log s ++ [(oc, s_data s)]) c).

Definition step (s : st) (t : token) : result st :=
  match t with
  | Load ls =>
    match ls with
    | [] => Err EIndex
    | l0 :: _ =>
      if negb (is_known_tagtype (l_type l0)) then Err EBf3 else
      if dmem N.eqb (l_type l0) BF2_TAGTYPE_MAP && nonempty (s_data s) then
        let* s1 := emit_drop s in
        Ok (mkSt ls (s_instrs s1) (s_log s1) (s_comments s1))
      else Ok (mkSt (s_data s ++ ls) (s_instrs s) (s_log s) (s_comments s))
    end
  | Instr name p =>
    if str_eqb name s_load then
      (* params[0].fwtagtype on something that is not a list of lines.  Not reachable from
         text: the parser refuses "#>load" and "##load:" (reserved name) *)
      match p with
      | PStr [] => Err EIndex
      | PStr _ => Err EType             (* AttributeError in Python: not in the enum, never compared *)
      | PDict _ => Err EKey
      end
    else
      let* s1 := if str_eqb name s_CHECK_FWVER && dmem str_eqb s_CHECK_FWVER (s_instrs s)
                 then emit_keep s else Ok s in
      let s2 := mkSt (s_data s1) (dset str_eqb name p (s_instrs s1)) (s_log s1) (s_comments s1) in
      if str_eqb name s_REBOOT then emit_keep s2 else Ok s2
  end.

Definition run (toks : list token) : result st :=
  let* s := foldM step toks (mkSt [] [] [] []) in
  if nonempty (s_data s) then emit_drop s else Ok s.

Definition comps_of (l : log) : list comp :=
  flat_map (fun e => match fst e with Some c => [c] | None => [] end) l.

Fixpoint bytes_leb (a b : bytes) : bool :=
  match a, b with
  | [], _ => true
  | _ :: _, [] => false
  | x :: a', y :: b' => if b2n x <? b2n y then true else if b2n y <? b2n x then false else bytes_leb a' b'
  end.

Definition sort_comps (cs : list comp) : result (list comp) :=
  let* keyed := mapM (fun c => let* k := desc_get BF3TAG_TYPE (c_desc c) in Ok (k, c)) cs in
  Ok (map snd (sort_by (fun a b => bytes_leb (fst a) (fst b)) keyed)).

Definition finish (s : st) (enforce : bool) : result (cdict * list comp) :=
  if enforce && negb (dmem str_eqb s_Bf3Update (s_comments s)) then Err EUnsupLegacy else
  let* sorted := sort_comps (comps_of (s_log s)) in
  let* ann := annotations sorted in
  Ok (dupdate str_eqb (s_comments s) ann, sorted).

Definition bf2_import (toks : list token) (enforce : bool) : result (cdict * list comp) :=
  let* s := run toks in finish s enforce.

(* ------------------------------------------------------------------------------- *)
(* parse_bf2_file (text level)                                                     *)

(* iteration over a StringIO: lines end after "\n" (no newline translation) *)
Fixpoint lines_of (s : str) (cur_rev : str) : list str :=
  match s with
  | [] => match cur_rev with [] => [] | _ => [rev cur_rev] end
  | c :: t => if c =? 10 then rev (c :: cur_rev) :: lines_of t []
              else lines_of t (c :: cur_rev)
  end.

Definition parse_data_line (ln : str) : result line :=
  let* rdata := hex2bin ln in
  let* (ndx, r1) := rd_read_int 2 (new_reader rdata) in
  let* (ty, r2) := rd_read_int 1 r1 in
  let* (tl, r3) := rd_read_int 1 r2 in
  let* (tag, _) := rd_read tl r3 in
  Ok (mkLine ty ndx tag rdata).

(* dict(p.strip().split("=") for p in params_str.split(",") if p) *)
Definition parse_params (ps : str) : result (list (str * str)) :=
  let* kvs := mapM (fun p => match split_on 61 (strip p) with
                             | [k; v] => Ok (k, v)
                             | _ => Err EValue
                             end)
                   (filter (fun p => nonempty p) (split_on 44 ps)) in
  Ok (dupdate str_eqb [] kvs).

Definition parse_cmd_line (rest : str) : result token :=       (* rest = line[2:] *)
  match split_ws1 rest with
  | [cmd] => let* d := parse_params [] in
             if str_eqb cmd s_load then Err EValue else Ok (Instr cmd (PDict d))   (* reserved name *)
  | [cmd; ps] => let* d := parse_params ps in
                 if str_eqb cmd s_load then Err EValue else Ok (Instr cmd (PDict d))
  | _ => Err EValue
  end.

Definition parse_meta_line (rest : str) : result token :=
  match split_on 58 rest with
  | [name; value] =>
    if str_eqb name s_load then Err EValue            (* reserved header name *)
    else Ok (Instr name (PStr (strip value)))
  | _ => Err EValue
  end.

Fixpoint parse_lines (lns : list str) (fwdata_rev : list line) : result (list token) :=
  match lns with
  | [] => Ok []                          (* pending data without end marker is dropped *)
  | ln :: t =>
    match ln with
    | [] => parse_lines t fwdata_rev
    | c0 :: rest0 =>
      if c0 =? 58 then                                           (* line.startswith(":") *)
        let* l := parse_data_line ln in
        if l_type l =? 255 then
          match fwdata_rev with
          | [] => parse_lines t []
          | _ => let* r := parse_lines t [] in Ok (Load (rev fwdata_rev) :: r)
          end
        else if l_type l =? 254 then parse_lines t fwdata_rev
        else parse_lines t (l :: fwdata_rev)
      else if c0 =? 35 then
        match rest0 with
        | [] => parse_lines t fwdata_rev
        | c1 :: rest =>
          if c1 =? 62 then                                       (* "#>" *)
            let* tk := parse_cmd_line rest in
            let* r := parse_lines t fwdata_rev in Ok (tk :: r)
          else if c1 =? 35 then                                  (* "##" *)
            let* tk := parse_meta_line rest in
            let* r := parse_lines t fwdata_rev in Ok (tk :: r)
          else parse_lines t fwdata_rev
        end
      else parse_lines t fwdata_rev
    end
  end.

Definition parse_text (text : str) : result (list token) := parse_lines (lines_of text []) [].

Definition bf2_import_text (text : str) (enforce : bool) : result (cdict * list comp) :=
  match parse_text text with
  | Err e => if caught e then Err EBf3 else Err e
  | Ok toks => bf2_import toks enforce
  end.

(* ------------------------------------------------------------------------------- *)
(* boolean equalities and literal helpers used by the generated case files        *)

Definition L1 (b : bytes) : str := map b2n b.            (* Latin-1 text given as bytes *)

Definition pval_eqb (a b : pval) : bool :=
  match a, b with
  | PStr x, PStr y => str_eqb x y
  | PDict x, PDict y => list_eqb (prod_eqb str_eqb str_eqb) x y
  | _, _ => false
  end.
Definition sdict_eqb : list (str * pval) -> list (str * pval) -> bool :=
  list_eqb (prod_eqb str_eqb pval_eqb).
Definition desc_eqb : desc -> desc -> bool := list_eqb (prod_eqb N.eqb bytes_eqb).
Definition comp_eqb (a b : comp) : bool :=
  desc_eqb (c_desc a) (c_desc b) && bytes_eqb (c_blob a) (c_blob b).
Definition file_eqb : cdict * list comp -> cdict * list comp -> bool :=
  prod_eqb sdict_eqb (list_eqb comp_eqb).
Definition line_eqb (a b : line) : bool :=
  (l_type a =? l_type b) && (l_ndx a =? l_ndx b) && bytes_eqb (l_tag a) (l_tag b)
  && bytes_eqb (l_raw a) (l_raw b).
Definition token_eqb (a b : token) : bool :=
  match a, b with
  | Load x, Load y => list_eqb line_eqb x y
  | Instr n p, Instr m q => str_eqb n m && pval_eqb p q
  | _, _ => false
  end.
Definition blocks_eqb : list (Z * bytes) -> list (Z * bytes) -> bool :=
  list_eqb (prod_eqb Z.eqb bytes_eqb).
Definition exec_eqb : idict * cdict * option desc -> idict * cdict * option desc -> bool :=
  prod_eqb (prod_eqb sdict_eqb sdict_eqb) (option_eqb desc_eqb).
