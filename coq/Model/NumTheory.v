(* Model of the part of the vendored python-ecdsa numbertheory.py that decoding a compressed
   point runs through (ellipticcurve.AbstractPoint._from_compressed):
     polynomial_reduce_mod, polynomial_multiply_mod, polynomial_exp_mod, jacobi,
     square_root_mod_prime
   with the exception behaviour of the code as it is, on Python ints = Z and Python lists of
   ints = list Z (coefficients of increasing powers).  `%` and `//` are floor operations in
   Python and in Coq (Z.modulo, Z.div); the models are compared with the implementation for
   moduli p >= 1 only (p = 0 is ZeroDivisionError in Python).

   Exceptions.  numbertheory.Error(Exception) and its subclasses have no constructor of their
   own in Base/Result.v; on these paths neither a bare Exception, a KeyError nor a
   NotImplementedError can be raised, so their constructors stand for
     ESquareRoot := EBare      numbertheory.SquareRootError
     EJacobi     := EKey       numbertheory.JacobiError
     ERuntime    := ENotImpl   RuntimeError("No b found.")   (NotImplementedError is its subclass)
   (tools/props/C19.py maps the implementation's exceptions the same way).  AssertionError is
   EAssert, IndexError is EIndex.  EFuel is never a Python behaviour: jacobi's fuel is proved
   sufficient for every input (Proofs/NumTheoryProofs.v: jacobi_terminates).

   The last definition instantiates the square-root parameter `sqrt_mod` of Model/KeyCodec.v. *)
From Coq Require Import List Bool ZArith NArith Lia.
From Bec2 Require Import Base.Result.
Import ListNotations.
Open Scope Z_scope.

Definition ESquareRoot : err := EBare.
Definition EJacobi : err := EKey.
Definition ERuntime : err := ENotImpl.
(* `except numbertheory.Error` *)
Definition is_nt_error (e : err) : bool := err_eqb e ESquareRoot || err_eqb e EJacobi.

(* ---- pow(a, e, m) for e >= 0, m >= 1: square and multiply on the bits of e, reduced mod m
        at every step ------------------------------------------------------------------------- *)
(* Binary numerals make a product quadratic and a division five times as expensive as a product of
   the same size, so pow multiplies through a table of the sixteen multiples of one operand (four
   bits of the other operand per addition) and reduces with Barrett's estimate of the quotient
   (mu = 2^(2k) / m, k = bits of m).  Neither is trusted: mulw_go (mk_tab y) y x = x * y
   (mulw_go_spec), and the estimate is checked, so that barrett_mod returns x mod m whatever mu
   and k are (barrett_mod_spec). *)
Record tab16 : Set := mkTab { t1 : positive; t2 : positive; t3 : positive; t4 : positive; t5 : positive; t6 : positive; t7 : positive; t8 : positive; t9 : positive; t10 : positive; t11 : positive; t12 : positive; t13 : positive; t14 : positive; t15 : positive }.

Definition mk_tab (y : positive) : tab16 :=
  let y2 := xO y in let y3 := (y + y2)%positive in let y4 := xO y2 in let y5 := (y + y4)%positive in
  let y6 := xO y3 in let y7 := (y + y6)%positive in let y8 := xO y4 in let y9 := (y + y8)%positive in
  let y10 := xO y5 in let y11 := (y + y10)%positive in let y12 := xO y6 in
  let y13 := (y + y12)%positive in let y14 := xO y7 in let y15 := (y + y14)%positive in
  mkTab y y2 y3 y4 y5 y6 y7 y8 y9 y10 y11 y12 y13 y14 y15.

Local Open Scope positive_scope.
Fixpoint mulw_go (t : tab16) (y x : positive) : positive :=
  match x with
  | xO (xO (xO (xO r))) => xO (xO (xO (xO (mulw_go t y r))))
  | xI (xO (xO (xO r))) => t1 t + xO (xO (xO (xO (mulw_go t y r))))
  | xO (xI (xO (xO r))) => t2 t + xO (xO (xO (xO (mulw_go t y r))))
  | xI (xI (xO (xO r))) => t3 t + xO (xO (xO (xO (mulw_go t y r))))
  | xO (xO (xI (xO r))) => t4 t + xO (xO (xO (xO (mulw_go t y r))))
  | xI (xO (xI (xO r))) => t5 t + xO (xO (xO (xO (mulw_go t y r))))
  | xO (xI (xI (xO r))) => t6 t + xO (xO (xO (xO (mulw_go t y r))))
  | xI (xI (xI (xO r))) => t7 t + xO (xO (xO (xO (mulw_go t y r))))
  | xO (xO (xO (xI r))) => t8 t + xO (xO (xO (xO (mulw_go t y r))))
  | xI (xO (xO (xI r))) => t9 t + xO (xO (xO (xO (mulw_go t y r))))
  | xO (xI (xO (xI r))) => t10 t + xO (xO (xO (xO (mulw_go t y r))))
  | xI (xI (xO (xI r))) => t11 t + xO (xO (xO (xO (mulw_go t y r))))
  | xO (xO (xI (xI r))) => t12 t + xO (xO (xO (xO (mulw_go t y r))))
  | xI (xO (xI (xI r))) => t13 t + xO (xO (xO (xO (mulw_go t y r))))
  | xO (xI (xI (xI r))) => t14 t + xO (xO (xO (xO (mulw_go t y r))))
  | xI (xI (xI (xI r))) => t15 t + xO (xO (xO (xO (mulw_go t y r))))
  | _ => Pos.mul x y
  end.

Local Close Scope positive_scope.

Definition zmul_tab (t : tab16) (yp : positive) (x : Z) : Z :=
  match x with Zpos xp => Zpos (mulw_go t yp xp) | _ => x * Zpos yp end.
Definition zmulw (x y : Z) : Z :=
  match y with Zpos yp => zmul_tab (mk_tab yp) yp x | _ => x * y end.

Definition barrett_mod (mul_mu mul_m : Z -> Z) (m k x : Z) : Z :=
  let q := Z.shiftr (mul_mu (Z.shiftr x (k - 1))) (k + 1) in
  let r := x - mul_m q in
  if r <? 0 then x mod m else
  if r <? m then r else
  let r := r - m in
  if r <? m then r else
  let r := r - m in
  if r <? m then r else x mod m.

Fixpoint powmod_pos (mul : Z -> Z -> Z) (red : Z -> Z) (a : Z) (e : positive) : Z :=
  match e with
  | xH => red a
  | xO e' => let r := powmod_pos mul red a e' in red (mul r r)
  | xI e' => let r := powmod_pos mul red a e' in red (mul (red (mul r r)) a)
  end.

Definition powmod (a e m : Z) : Z :=
  match e with
  | Z0 => 1 mod m
  | Zpos e' =>
    let k := Z.log2 m + 1 in
    match m, 2 ^ (2 * k) / m with
    | Zpos mp, Zpos mup =>
      powmod_pos zmulw (barrett_mod (zmul_tab (mk_tab mup) mup) (zmul_tab (mk_tab mp) mp) m k) a e'
    | _, _ => powmod_pos Z.mul (fun x => x mod m) a e'
    end
  | Zneg _ => 0            (* pow(a, -e, m) is a modular inverse in Python: not reachable here *)
  end.

(* ---- polynomial_reduce_mod ------------------------------------------------------------------ *)

(* for i in xrange(2, len(polymod) + 1): poly[-i] = (poly[-i] - poly[-1] * polymod[-i]) % p
   on the reversed lists: poly = rev (top :: rest), polymod = rev (_ :: mrest) *)
Fixpoint reduce_step (top p : Z) (rest mrest : list Z) : list Z :=
  match mrest, rest with
  | m :: mt, c :: ct => ((c - top * m) mod p) :: reduce_step top p ct mt
  | _, _ => rest
  end.

(* while len(poly) >= len(polymod): ...; poly = poly[0:-1]     (at most len(poly) rounds) *)
Fixpoint reduce_loop (fuel : nat) (rp rm : list Z) (p : Z) : list Z :=
  match fuel with
  | O => rp
  | S f =>
    if (length rm <=? length rp)%nat then
      match rp, rm with
      | top :: rest, _ :: mrest =>
        reduce_loop f (if top =? 0 then rest else reduce_step top p rest mrest) rm p
      | _, _ => rp
      end
    else rp
  end.

Definition polynomial_reduce_mod (poly polymod : list Z) (p : Z) : result (list Z) :=
  match rev polymod with
  | [] => Err EIndex                                         (* polymod[-1] *)
  | lead :: _ =>
    if negb (lead =? 1) then Err EAssert else                (* assert polymod[-1] == 1 *)
    if negb (1 <? length polymod)%nat then Err EAssert else  (* assert len(polymod) > 1 *)
    Ok (rev (reduce_loop (length poly) (rev poly) (rev polymod) p))
  end.

(* ---- polynomial_multiply_mod ---------------------------------------------------------------- *)

Fixpoint upd (l : list Z) (k : nat) (f : Z -> Z) : list Z :=
  match l, k with
  | [], _ => []
  | x :: t, O => f x :: t
  | x :: t, S k' => x :: upd t k' f
  end.

Definition indexed (l : list Z) : list (nat * Z) := combine (seq 0 (length l)) l.

(* prod = (len(m1) + len(m2) - 1) * [0]; prod[i + j] = (prod[i + j] + m1[i] * m2[j]) % p *)
Definition cross_terms (m1 m2 : list Z) (p : Z) : list Z :=
  fold_left (fun pr ia =>
    fold_left (fun pr jb => upd pr (fst ia + fst jb) (fun c => (c + snd ia * snd jb) mod p))
              (indexed m2) pr)
    (indexed m1) (repeat 0 (length m1 + length m2 - 1)).

Definition polynomial_multiply_mod (m1 m2 polymod : list Z) (p : Z) : result (list Z) :=
  polynomial_reduce_mod (cross_terms m1 m2 p) polymod p.

(* ---- polynomial_exp_mod --------------------------------------------------------------------- *)

Definition pos_odd (k : positive) : bool := match k with xO _ => false | _ => true end.

(* while k > 1: k = k // 2; G = G*G; if k % 2 == 1: s = G*s       (k // 2 drops the low bit) *)
Fixpoint pexp_loop (k : positive) (G s polymod : list Z) (p : Z) : result (list Z) :=
  match k with
  | xH => Ok s
  | xO q | xI q =>
    let* G' := polynomial_multiply_mod G G polymod p in
    let* s' := if pos_odd q then polynomial_multiply_mod G' s polymod p else Ok s in
    pexp_loop q G' s' polymod p
  end.

Definition polynomial_exp_mod (base : list Z) (exponent : Z) (polymod : list Z) (p : Z)
  : result (list Z) :=
  if negb (exponent <? p) then Err EAssert else              (* assert exponent < p *)
  match exponent with
  | Z0 => Ok [1]
  | Zpos k => pexp_loop k base (if pos_odd k then base else [1]) polymod p
  | Zneg k => Ok (if pos_odd k then base else [1])           (* the loop does not run *)
  end.

(* ---- jacobi ---------------------------------------------------------------------------------- *)

(* while a1 % 2 == 0: a1, e = a1 // 2, e + 1 *)
Fixpoint strip2 (a : positive) : positive * Z :=
  match a with
  | xO q => let '(a1, e) := strip2 q in (a1, e + 1)
  | _ => (a, 0)
  end.

Fixpoint jacobi_fuel (fuel : nat) (a n : Z) : result Z :=
  match fuel with
  | O => Err EFuel
  | S f =>
    if negb (3 <=? n) then Err EJacobi else
    if negb (n mod 2 =? 1) then Err EJacobi else
    let a := a mod n in
    if a =? 0 then Ok 0 else
    if a =? 1 then Ok 1 else
    match a with
    | Zpos ap =>
      let '(a1p, e) := strip2 ap in
      let a1 := Zpos a1p in
      let s := if (e mod 2 =? 0) || (n mod 8 =? 1) || (n mod 8 =? 7) then 1 else -1 in
      if a1 =? 1 then Ok s else
      let s := if (n mod 4 =? 3) && (a1 mod 4 =? 3) then - s else s in
      let* r := jacobi_fuel f (n mod a1) a1 in
      Ok (s * r)
    | _ => Err EFuel                                          (* a mod n > 1 is positive *)
    end
  end.

(* the recursion depth is at most log2 ((a mod n) * n) + 1 <= 2 * log2 n + 2 *)
Definition jacobi (a n : Z) : result Z := jacobi_fuel (Z.to_nat (2 * Z.log2 n + 2)) a n.

(* ---- square_root_mod_prime -------------------------------------------------------------------- *)

(* at most n steps of `step`, stopping at the first inr; structural on the binary numeral n *)
Section Until.
  Context {S R : Type} (step : S -> S + R).
  Fixpoint until_pos (n : positive) (s : S) : S + R :=
    match n with
    | xH => step s
    | xO n' =>
      match until_pos n' s with inl s' => until_pos n' s' | inr r => inr r end
    | xI n' =>
      match step s with
      | inl s1 => match until_pos n' s1 with inl s' => until_pos n' s' | inr r => inr r end
      | inr r => inr r
      end
    end.
End Until.

(* one round of `for b in xrange(2, p)`: None = go on with b + 1 *)
Definition sqrt_try (a p b : Z) : result (option Z) :=
  let* j := jacobi (b * b - 4 * a) p in
  if j =? -1 then
    let* ff := polynomial_exp_mod [0; 1] ((p + 1) / 2) [a; - b; 1] p in
    match nth_error ff 1 with
    | None => Err EIndex
    | Some c1 =>
      if negb (c1 =? 0) then Err ESquareRoot else            (* "p is not prime" *)
      match nth_error ff 0 with None => Err EIndex | Some c0 => Ok (Some c0) end
    end
  else Ok None.

Definition sqrt_step (a p b : Z) : Z + result Z :=
  match sqrt_try a p b with
  | Err e => inr (Err e)
  | Ok (Some r) => inr (Ok r)
  | Ok None => inl (b + 1)
  end.

Definition sqrt_search (a p : Z) : result Z :=
  match p - 2 with
  | Zpos n =>
    match until_pos (sqrt_step a p) n 2 with
    | inl _ => Err ERuntime                                   (* "No b found." *)
    | inr r => r
    end
  | _ => Err ERuntime
  end.

Definition square_root_mod_prime (a p : Z) : result Z :=
  if negb ((0 <=? a) && (a <? p)) then Err EAssert else
  if negb (1 <? p) then Err EAssert else
  if a =? 0 then Ok 0 else
  if p =? 2 then Ok a else
  let* jac := jacobi a p in
  if jac =? -1 then Err ESquareRoot else
  if p mod 4 =? 3 then Ok (powmod a ((p + 1) / 4) p) else
  if p mod 8 =? 5 then
    let d := powmod a ((p - 1) / 4) p in
    if d =? 1 then Ok (powmod a ((p + 3) / 8) p) else
    if negb (d =? p - 1) then Err ESquareRoot else      (* "p is not prime" (was an assert before the fix) *)
    Ok ((2 * a * powmod (4 * a) ((p - 5) / 8) p) mod p)
  else sqrt_search a p.

(* ---- the square-root parameter of Model/KeyCodec.v ------------------------------------------------
   _from_compressed catches numbertheory.Error and raises MalformedPointError; an AssertionError
   of square_root_mod_prime propagates, and MalformedPointError(AssertionError) is the same
   constructor EAssert, so both give `None` (= Err EMalformedPoint in from_compressed).
   RuntimeError("No b found.") would propagate as RuntimeError: it needs a modulus without any
   quadratic non-residue of the form b*b - 4*a and is outside the domain of the comparison. *)
Definition sqrt_mod_model (alpha : Z) (p : N) : option N :=
  match square_root_mod_prime alpha (Z.of_N p) with
  | Ok r => Some (Z.to_N r)
  | Err _ => None
  end.
