(* Model of appnotes/register_crypto_plugin/ecdsa/der.py: the DER primitives with
   their exact exception behaviour (what the code DOES; since /repo commit 430b0b7
   every remover tests for empty input and for a length longer than the buffer
   before it indexes string[0] / body[0]).

   Conventions: bytes = list byte, Python int = N (all arguments of the encoders
   are lengths, tags and non-negative integers; `assert r >= 0` / `assert l >= 0`
   therefore hold by typing).  A Python slice string[a:b] with 0 <= a is
   [slice a b]; string[a:] is [dropN a].

   int2byte(x) = x.to_bytes(1,"big") raises OverflowError for x > 255.  In
   encode_length the argument is 0x80 | llen with llen the byte length of l, so
   the OverflowError needs l >= 256^255; every l that is the len() of a Python
   bytes object is < 2^63.  encode_length below is total and faithful for
   l < 256^255 (it uses n2b = "mod 256" instead of raising).  All theorems carry
   the bound l < 256^127 (the largest l whose long form fits the 7-bit length of
   length) in their statement. *)
From Coq Require Import List Bool NArith ZArith Lia.
From Coq Require Import Init.Byte.
From Bec2 Require Import Base.Result Base.Bytes.
Import ListNotations.
Open Scope N_scope.

(* ---- Python primitives ----------------------------------------------------- *)

(* str_idx_as_int(string, i), i >= 0 *)
Definition idx (s : bytes) (i : N) : result N :=
  match nth_error s (N.to_nat i) with
  | Some b => Ok (b2n b)
  | None => Err EIndex
  end.

(* str_idx_as_int(string, -1) *)
Definition idx_last (s : bytes) : result N :=
  match rev s with
  | b :: _ => Ok (b2n b)
  | [] => Err EIndex
  end.

(* string[a:b], 0 <= a, 0 <= b *)
Definition slice (a b : N) (s : bytes) : bytes := takeN (b - a) (dropN a s).

(* int(binascii.hexlify(s), 16): ValueError for the empty string *)
Definition int_of_hex (s : bytes) : result N :=
  match s with [] => Err EValue | _ => Ok (from_be s) end.

(* number of bytes of binascii.unhexlify(("%x" % n) padded to an even length) *)
Definition bytelen (n : N) : N := N.log2 n / 8 + 1.

(* binascii.unhexlify(even-padded "%x" % n): minimal big-endian bytes, one 00 byte for 0 *)
Definition min_be (n : N) : bytes := be (N.to_nat (bytelen n)) n.

(* tags: the constructors x02 x03 x04 x06 x30 of Init.Byte.byte *)

(* ---- encoders ---------------------------------------------------------------- *)

Definition encode_length (l : N) : bytes :=
  if l <? 0x80 then [n2b l]
  else let s := min_be l in n2b (N.lor 0x80 (blen s)) :: s.

(* int2byte(0xA0 + tag) raises OverflowError for tag > 95 *)
Definition encode_constructed (tag : N) (value : bytes) : result bytes :=
  let* t := to_bytes 1 (0xA0 + tag) in
  Ok (t ++ encode_length (blen value) ++ value).

Definition encode_integer (r : N) : bytes :=
  let s := min_be r in
  match s with
  | [] => []                                     (* unreachable: min_be is never empty *)
  | b0 :: _ =>
    if b2n b0 <=? 0x7F
    then [x02] ++ encode_length (blen s) ++ s
    else [x02] ++ encode_length (blen s + 1) ++ [x00] ++ s
  end.

(* the `unused` argument of encode_bitstring / `expect_unused` of remove_bitstring:
   not given (deprecated calling convention) | None | an int (>= 0) *)
Inductive bs_mode := BsLegacy | BsNone | BsInt (n : N).

Definition encode_bitstring (s : bytes) (unused : bs_mode) : result bytes :=
  match unused with
  | BsLegacy | BsNone => Ok ([x03] ++ encode_length (blen s) ++ s)
  | BsInt u =>
    if 7 <? u then Err EValue else
    let* _ :=
      if u =? 0 then Ok tt else
      match s with
      | [] => Err EValue
      | _ => let* last := idx_last s in
             if N.land last (2 ^ u - 1) =? 0 then Ok tt else Err EValue
      end in
    Ok ([x03] ++ encode_length (blen s + 1) ++ [n2b u] ++ s)
  end.

Definition encode_octet_string (s : bytes) : bytes :=
  [x04] ++ encode_length (blen s) ++ s.

(* base-128 digits of n, most significant first, all with bit 7 set; [] for 0 *)
Fixpoint b128_hi (fuel : nat) (n : N) : bytes :=
  match fuel with
  | O => []
  | S f => if n =? 0 then [] else b128_hi f (n / 128) ++ [n2b (128 + n mod 128)]
  end.

(* encode_number: digits with bit 7 set except the last one; a single 00 for 0 *)
Definition encode_number (n : N) : bytes :=
  b128_hi (N.size_nat n) (n / 128) ++ [n2b (n mod 128)].

(* assert 0 <= first < 2 and 0 <= second <= 39 or first == 2 and 0 <= second *)
Definition oid_args_ok (first second : N) : bool :=
  ((first <? 2) && (second <=? 39)) || (first =? 2).

Definition oid_body (first second : N) (pieces : list N) : bytes :=
  encode_number (40 * first + second) ++ concat (map encode_number pieces).

Definition encode_oid (first second : N) (pieces : list N) : result bytes :=
  if oid_args_ok first second then
    let body := oid_body first second pieces in
    Ok ([x06] ++ encode_length (blen body) ++ body)
  else Err EAssert.

(* encode_oid( *t ) for a tuple t: fewer than two components is a TypeError *)
Definition encode_oid_tuple (t : list N) : result bytes :=
  match t with
  | f :: s :: ps => encode_oid f s ps
  | _ => Err EType
  end.

(* encode_sequence( *pieces ) *)
Definition encode_sequence (pieces : list bytes) : bytes :=
  let body := concat pieces in
  [x30] ++ encode_length (blen body) ++ body.

(* ---- decoders ---------------------------------------------------------------- *)

(* returns (length, number of bytes read) *)
Definition read_length (s : bytes) : result (N * N) :=
  match s with
  | [] => Err EUnexpectedDER
  | b0 :: t =>
    let num := b2n b0 in
    if N.land num 0x80 =? 0 then Ok (N.land num 0x7F, 1) else
    let llen := N.land num 0x7F in
    if llen =? 0 then Err EUnexpectedDER else
    if blen t <? llen then Err EUnexpectedDER else          (* llen > len(string) - 1 *)
    let* msb := idx s 1 in
    if (msb =? 0) || ((llen =? 1) && (msb <? 0x80)) then Err EUnexpectedDER else
    let* v := int_of_hex (slice 1 (1 + llen) s) in
    Ok (v, 1 + llen)
  end.

Definition is_sequence (s : bytes) : bool :=
  match s with b0 :: _ => byte_eqb b0 x30 | [] => false end.

Definition remove_constructed (s : bytes) : result (N * bytes * bytes) :=
  match s with
  | [] => Err EUnexpectedDER
  | _ =>
    let* s0 := idx s 0 in
    if negb (N.land s0 0xE0 =? 0xA0) then Err EUnexpectedDER else
    let tag := N.land s0 0x1F in
    let* (len, llen) := read_length (dropN 1 s) in
    if blen s <? len + 1 + llen then Err EUnexpectedDER else      (* length > len(string)-1-llen *)
    Ok (tag, slice (1 + llen) (1 + llen + len) s, dropN (1 + llen + len) s)
  end.

Definition remove_sequence (s : bytes) : result (bytes * bytes) :=
  match s with
  | [] => Err EUnexpectedDER
  | b0 :: _ =>
    if negb (byte_eqb b0 x30) then Err EUnexpectedDER else
    let* (len, ll) := read_length (dropN 1 s) in
    if blen s <? len + 1 + ll then Err EUnexpectedDER else   (* length > len(string)-1-ll *)
    let endseq := 1 + ll + len in
    Ok (slice (1 + ll) endseq s, dropN endseq s)
  end.

Definition remove_octet_string (s : bytes) : result (bytes * bytes) :=
  match s with
  | [] => Err EUnexpectedDER
  | b0 :: _ =>
    if negb (byte_eqb b0 x04) then Err EUnexpectedDER else
    let* (len, llen) := read_length (dropN 1 s) in
    if blen s <? len + 1 + llen then Err EUnexpectedDER else
    Ok (slice (1 + llen) (1 + llen + len) s, dropN (1 + llen + len) s)
  end.

Fixpoint read_number_loop (s : bytes) (number llen : N) : result (N * N) :=
  match s with
  | [] => Err EUnexpectedDER                 (* ran out of length bytes *)
  | d :: t =>
    let number := number * 128 + N.land (b2n d) 0x7F in
    let llen := llen + 1 in
    if N.land (b2n d) 0x80 =? 0 then Ok (number, llen)
    else read_number_loop t number llen
  end.

Definition read_number (s : bytes) : result (N * N) :=
  match s with
  | [] => Err EUnexpectedDER
  | _ =>
    let* s0 := idx s 0 in
    if s0 =? 0x80 then Err EUnexpectedDER else read_number_loop s 0 0
  end.

(* while body: n, ll = read_number(body); numbers.append(n); body = body[ll:] *)
Fixpoint read_numbers (fuel : nat) (body : bytes) : result (list N) :=
  match body with
  | [] => Ok []
  | _ =>
    match fuel with
    | O => Err EFuel
    | S f =>
      let* (n, ll) := read_number body in
      let* rest := read_numbers f (dropN ll body) in
      Ok (n :: rest)
    end
  end.

Definition remove_object (s : bytes) : result (list N * bytes) :=
  match s with
  | [] => Err EUnexpectedDER
  | b0 :: _ =>
    if negb (byte_eqb b0 x06) then Err EUnexpectedDER else
    let* (len, ll) := read_length (dropN 1 s) in
    let body := slice (1 + ll) (1 + ll + len) s in
    let rest := dropN (1 + ll + len) s in
    match body with
    | [] => Err EUnexpectedDER
    | _ =>
      if negb (blen body =? len) then Err EUnexpectedDER else
      let* numbers := read_numbers (S (length body)) body in
      match numbers with
      | [] => Err EIndex                     (* numbers.pop(0); unreachable, body is not empty *)
      | n0 :: tl =>
        let first := if n0 <? 80 then n0 / 40 else 2 in
        let second := n0 - 40 * first in
        Ok (first :: second :: tl, rest)
      end
    end
  end.

Definition remove_integer (s : bytes) : result (N * bytes) :=
  match s with
  | [] => Err EUnexpectedDER
  | b0 :: _ =>
    if negb (byte_eqb b0 x02) then Err EUnexpectedDER else
    let* (len, llen) := read_length (dropN 1 s) in
    if blen s <? len + 1 + llen then Err EUnexpectedDER else
    if len =? 0 then Err EUnexpectedDER else
    let numberbytes := slice (1 + llen) (1 + llen + len) s in
    let rest := dropN (1 + llen + len) s in
    let* msb := idx numberbytes 0 in
    if negb (msb <? 0x80) then Err EUnexpectedDER else
    let* _ :=
      if (1 <? len) && (msb =? 0) then
        let* smsb := idx numberbytes 1 in
        if smsb <? 0x80 then Err EUnexpectedDER else Ok tt
      else Ok tt in
    let* v := int_of_hex numberbytes in
    Ok (v, rest)
  end.

(* remove_bitstring(string, expect_unused): returns (body, Some unused iff
   expect_unused is None, rest) *)
Definition remove_bitstring (s : bytes) (expect : bs_mode) : result (bytes * option N * bytes) :=
  match s with
  | [] => Err EUnexpectedDER
  | b0 :: _ =>
    if negb (byte_eqb b0 x03) then Err EUnexpectedDER else
    let* (len, llen) := read_length (dropN 1 s) in
    if len =? 0 then Err EUnexpectedDER else
    if blen s <? len + 1 + llen then Err EUnexpectedDER else
    let body := slice (1 + llen) (1 + llen + len) s in
    let rest := dropN (1 + llen + len) s in
    match expect with
    | BsLegacy => Ok (body, None, rest)
    | _ =>
      let* unused := idx body 0 in
      if 7 <? unused then Err EUnexpectedDER else
      let* _ := match expect with
                | BsInt e => if e =? unused then Ok tt else Err EUnexpectedDER
                | _ => Ok tt
                end in
      let body := dropN 1 body in
      let* _ :=
        if unused =? 0 then Ok tt else
        match body with
        | [] => Err EUnexpectedDER
        | _ => let* last := idx_last body in
               if N.land last (2 ^ unused - 1) =? 0 then Ok tt else Err EUnexpectedDER
        end in
      Ok (body, match expect with BsNone => Some unused | _ => None end, rest)
    end
  end.

(* ---- PEM (partial): base64 is opaque ------------------------------------------ *)
(* topem / unpem with base64.b64encode / b64decode as parameters.  The line
   structure is modelled: header line, 64-character lines, footer line; unpem
   splits at \n, drops empty lines and lines that start with "-----", strips
   the others (ASCII whitespace) and joins them. *)

Definition nl : byte := x0a.
Definition dash : byte := x2d.
Definition dashes5 : bytes := [dash; dash; dash; dash; dash].

Fixpoint split_nl_aux (s cur : bytes) : list bytes :=
  match s with
  | [] => [rev cur]
  | c :: t => if byte_eqb c nl then rev cur :: split_nl_aux t [] else split_nl_aux t (c :: cur)
  end.
(* pem.split(b"\n") *)
Definition split_nl (s : bytes) : list bytes := split_nl_aux s [].

Fixpoint starts_with (p s : bytes) : bool :=
  match p, s with
  | [], _ => true
  | a :: p', b :: s' => byte_eqb a b && starts_with p' s'
  | _ :: _, [] => false
  end.

(* bytes.strip(): space, \t \n \v \f \r *)
Definition is_ws (b : byte) : bool :=
  let n := b2n b in (n =? 32) || ((9 <=? n) && (n <=? 13)).
Fixpoint lstrip (s : bytes) : bytes :=
  match s with c :: t => if is_ws c then lstrip t else s | [] => [] end.
Definition strip (s : bytes) : bytes := rev (lstrip (rev (lstrip s))).

Fixpoint chunks (fuel : nat) (n : N) (s : bytes) : list bytes :=
  match fuel with
  | O => []
  | S f => match s with [] => [] | _ => takeN n s :: chunks f n (dropN n s) end
  end.

Section Pem.
  Variable b64encode : bytes -> bytes.
  Variable b64decode : bytes -> result bytes.

  (* name is the ASCII label, e.g. "PUBLIC KEY" *)
  Definition topem (der name : bytes) : bytes :=
    let b64 := b64encode der in
    (dashes5 ++ [ "B"; "E"; "G"; "I"; "N"; " " ]%byte ++ name ++ dashes5 ++ [nl]) ++
    concat (map (fun l => l ++ [nl]) (chunks (length b64) 64 b64)) ++
    (dashes5 ++ [ "E"; "N"; "D"; " " ]%byte ++ name ++ dashes5 ++ [nl]).

  Definition unpem (pem : bytes) : result bytes :=
    let ls := filter (fun l => match l with [] => false | _ => negb (starts_with dashes5 l) end)
                     (split_nl pem) in
    b64decode (concat (map strip ls)).
End Pem.
