(* Decidable equalities and small helpers used by the correspondence case files. *)
From Coq Require Import List Bool NArith.
From Coq Require Import Init.Byte.
From Bec2 Require Import Base.Result Base.Bytes Model.Bf3.
Import ListNotations.
Open Scope N_scope.

Definition desc_eqb : desc -> desc -> bool := list_eqb (prod_eqb N.eqb bytes_eqb).
Definition comp_eqb (a b : comp) : bool :=
  desc_eqb (c_desc a) (c_desc b) && bytes_eqb (c_blob a) (c_blob b) &&
  (c_alen a =? c_alen b) && Bool.eqb (c_enc a) (c_enc b).
Definition comments_eqb : comments -> comments -> bool := list_eqb (prod_eqb str_eqb str_eqb).
Definition bf3_eqb (a b : bf3) : bool :=
  comments_eqb (f_comments a) (f_comments b) && list_eqb comp_eqb (f_comps a) (f_comps b).

(* Latin-1 text literal: code points of the bytes *)
Definition L1 (len v : N) : str := map b2n (H len v).
