(* C20 (part 1) - small-step semantics of the instruction lists that
   tools/gen/rwlock.py generates from ecdsa/_rwlock.py (Gen/RwLock.v), and an
   executable explicit-state exploration.  No proofs here.

   State = lock bits (one per threading.Lock: a binary semaphore without owner),
   counters, and per thread (role, pc, tmp).  One step = one thread executes one
   instruction; `Acq` on a held lock is disabled (the thread is blocked).
   A session of a thread is  <role>_acquire ++ <role>_release ; the thread is in
   its critical section exactly when pc = length <role>_acquire. *)
From Coq Require Import List Bool Arith PArith NArith FMapPositive.
From Bec2 Require Import Gen.RwLock.
Import ListNotations.

Inductive role : Set := Reader | Writer.

Record thread : Set := mkT { t_role : role; t_pc : nat; t_tmp : nat }.
Record state : Set := mkS { s_l : lockst; s_c : ctrst; s_th : list thread }.

Definition acquire_of (r : role) : list instr :=
  match r with Reader => reader_acquire | Writer => writer_acquire end.
Definition release_of (r : role) : list instr :=
  match r with Reader => reader_release | Writer => writer_release end.
Definition prog_of (r : role) : list instr := acquire_of r ++ release_of r.
Definition cs_pc (r : role) : nat := length (acquire_of r).
Definition end_pc (r : role) : nat := length (prog_of r).

Definition in_cs (t : thread) : bool := t_pc t =? cs_pc (t_role t).
Definition writer_in_cs (t : thread) : bool :=
  match t_role t with Writer => in_cs t | Reader => false end.
Definition reader_in_cs (t : thread) : bool :=
  match t_role t with Reader => in_cs t | Writer => false end.

(* loop = true : after the last instruction of the release method the thread
   starts a new session (pc 0); loop = false : it stops at end_pc. *)
Definition norm (loop : bool) (r : role) (pc : nat) : nat :=
  if loop && (end_pc r <=? pc) then 0 else pc.

Inductive outcome : Set :=
| Next (l : lockst) (c : ctrst) (t : thread)
| Blocked        (* acquire of a held lock *)
| Fault          (* release of a lock that is not held (RuntimeError), or a counter
                    store below zero (outside the domain of the model) *)
| Finished.      (* pc = end_pc, only when loop = false *)

Definition exec (loop : bool) (l : lockst) (c : ctrst) (t : thread) : outcome :=
  let r := t_role t in
  let pc := t_pc t in
  let go n tmp := mkT r (norm loop r (pc + n)) tmp in
  match nth_error (prog_of r) pc with
  | None => Finished
  | Some i =>
    match i with
    | Acq k => if getl l k then Blocked else Next (setl l k true) c (go 1 (t_tmp t))
    | Rel k => if getl l k then Next (setl l k false) c (go 1 (t_tmp t)) else Fault
    | Load x => Next l c (go 1 (getc c x))
    | StoreInc x => Next l (setc c x (t_tmp t + 1)) (go 1 0)
    | StoreDec x => match t_tmp t with
                    | O => Fault
                    | S m => Next l (setc c x m) (go 1 0)
                    end
    | IfNeSkip x k => Next l c (go (if getc c x =? k then 1 else 2) (t_tmp t))
    | Call => Next l c (go 1 (t_tmp t))
    end
  end.

Fixpoint upd {A : Type} (i : nat) (x : A) (l : list A) : list A :=
  match l with
  | [] => []
  | a :: l' => match i with O => x :: l' | S i' => a :: upd i' x l' end
  end.

Definition step_thread (loop : bool) (s : state) (i : nat) : option state :=
  match nth_error (s_th s) i with
  | None => None
  | Some t => match exec loop (s_l s) (s_c s) t with
              | Next l c t' => Some (mkS l c (upd i t' (s_th s)))
              | _ => None
              end
  end.

Definition thread_faults (loop : bool) (s : state) (t : thread) : bool :=
  match exec loop (s_l s) (s_c s) t with Fault => true | _ => false end.

(* Transition relation.  Besides executing an instruction, a thread that is
   between two sessions (pc = 0) may change its role: threads choose reader or
   writer sessions freely. *)
Inductive step (loop : bool) : state -> state -> Prop :=
| step_exec : forall s i s', step_thread loop s i = Some s' -> step loop s s'
| step_role : forall s i t r, nth_error (s_th s) i = Some t -> t_pc t = 0 ->
    step loop s (mkS (s_l s) (s_c s) (upd i (mkT r 0 (t_tmp t)) (s_th s))).

Inductive reachable (loop : bool) (s0 : state) : state -> Prop :=
| reach_refl : reachable loop s0 s0
| reach_step : forall s s', reachable loop s0 s -> step loop s s' -> reachable loop s0 s'.

(* fixed roles: only instruction steps *)
Inductive reach_exec (loop : bool) (s0 : state) : state -> Prop :=
| rx_refl : reach_exec loop s0 s0
| rx_step : forall s i s', reach_exec loop s0 s -> step_thread loop s i = Some s' ->
    reach_exec loop s0 s'.

Definition init (roles : list role) : state :=
  mkS lockst0 ctrst0 (map (fun r => mkT r 0 0) roles).

Definition all_finished (s : state) : bool :=
  forallb (fun t => t_pc t =? end_pc (t_role t)) (s_th s).

(* ---- line granularity (correspondence with the real code: one traced source
   line = one instruction, except `counter += 1` = Load; Store) ------------- *)
Definition line_step (loop : bool) (s : state) (i : nat) : option state :=
  match nth_error (s_th s) i with
  | None => None
  | Some t =>
    match nth_error (prog_of (t_role t)) (t_pc t) with
    | Some (Load _) => match step_thread loop s i with
                       | Some s1 => step_thread loop s1 i
                       | None => None
                       end
    | _ => step_thread loop s i
    end
  end.

Fixpoint run_lines (loop : bool) (s : state) (sched : list nat) : option state :=
  match sched with
  | [] => Some s
  | i :: rest => match line_step loop s i with
                 | Some s' => run_lines loop s' rest
                 | None => None
                 end
  end.

(* what the harness observes on the real lock: lock bits, counters, pcs, and
   for each thread whether its next line can execute *)
Definition obs : Set := (list bool * list nat * list nat * list bool)%type.
Definition observe (loop : bool) (s : state) : obs :=
  (map (getl (s_l s)) all_locks, map (getc (s_c s)) all_ctrs, map t_pc (s_th s),
   map (fun i => match line_step loop s i with Some _ => true | None => false end)
       (seq 0 (length (s_th s)))).

Fixpoint list_eqb {A : Type} (e : A -> A -> bool) (a b : list A) : bool :=
  match a, b with
  | [], [] => true
  | x :: a', y :: b' => e x y && list_eqb e a' b'
  | _, _ => false
  end.

Definition obs_eqb (a b : obs) : bool :=
  let '(l1, c1, p1, e1) := a in
  let '(l2, c2, p2, e2) := b in
  list_eqb Bool.eqb l1 l2 && list_eqb Nat.eqb c1 c2 && list_eqb Nat.eqb p1 p2 && list_eqb Bool.eqb e1 e2.

Definition check_obs (loop : bool) (roles : list role) (sched : list nat) (expected : obs) : bool :=
  match run_lines loop (init roles) sched with
  | Some s => obs_eqb (observe loop s) expected
  | None => false
  end.

(* ---- explicit-state exploration ----------------------------------------- *)
Definition role_eqb (a b : role) : bool :=
  match a, b with Reader, Reader | Writer, Writer => true | _, _ => false end.
Definition thread_eqb (a b : thread) : bool :=
  role_eqb (t_role a) (t_role b) && (t_pc a =? t_pc b) && (t_tmp a =? t_tmp b).
Definition lockst_eqb (a b : lockst) : bool :=
  forallb (fun l => Bool.eqb (getl a l) (getl b l)) all_locks.
Definition ctrst_eqb (a b : ctrst) : bool :=
  forallb (fun c => getc a c =? getc b c) all_ctrs.
Definition state_eqb (a b : state) : bool :=
  lockst_eqb (s_l a) (s_l b) && ctrst_eqb (s_c a) (s_c b) && list_eqb thread_eqb (s_th a) (s_th b).

(* any function would do (collisions share a bucket); small numbers are pushed in
   unary (n one-bits and a zero-bit), so no arithmetic on long positives is needed *)
Fixpoint push_nat (n : nat) (h : positive) : positive :=
  match n with O => xO h | S m => xI (push_nat m h) end.
Definition hash (s : state) : positive :=
  let h0 := fold_left (fun h l => if getl (s_l s) l then xI h else xO h) all_locks xH in
  let h1 := fold_left (fun h c => push_nat (getc (s_c s) c) h) all_ctrs h0 in
  fold_left (fun h t => push_nat (t_tmp t) (push_nat (t_pc t) h)) (s_th s) h1.

Definition table := PositiveMap.t (list state).

Definition bucket (T : table) (h : positive) : list state :=
  match PositiveMap.find h T with Some b => b | None => [] end.
Definition mem (s : state) (T : table) : bool := existsb (state_eqb s) (bucket T (hash s)).
Definition ins (s : state) (T : table) : table :=
  PositiveMap.add (hash s) (s :: bucket T (hash s)) T.
Definition all_states (T : table) : list state :=
  flat_map snd (PositiveMap.elements T).

Definition succs (loop : bool) (s : state) : list state :=
  flat_map (fun i => match step_thread loop s i with Some s' => [s'] | None => [] end)
           (seq 0 (length (s_th s))).

(* one worklist step *)
Definition explore_step (loop : bool) (wt : list state * table) : list state * table :=
  match fst wt with
  | [] => wt
  | s :: w =>
    fold_left (fun '(w, T) s' => if mem s' T then (w, T) else (s' :: w, ins s' T))
              (succs loop s) (w, snd wt)
  end.

(* 2^k applications of f *)
Fixpoint iter_pow2 {X : Type} (k : nat) (f : X -> X) (x : X) : X :=
  match k with
  | O => f x
  | S k' => iter_pow2 k' f (iter_pow2 k' f x)
  end.

Definition explore (loop : bool) (k : nat) (s0 : state) : table :=
  snd (iter_pow2 k (explore_step loop) ([s0], ins s0 (PositiveMap.empty _))).

(* T contains s0 and is closed under the successor function *)
Definition closed (loop : bool) (T : table) : bool :=
  forallb (fun s => forallb (fun s' => mem s' T) (succs loop s)) (all_states T).

(* backward closure: states that can reach a target state.  The successor lists
   are computed once (graph); a round adds every state with a successor already
   in G; `fst` of the result is the list of states not (yet) shown to reach. *)
Definition graph (loop : bool) (all : list state) : list (state * list state) :=
  map (fun s => (s, succs loop s)) all.

Definition grow (gr : list (state * list state) * table) : list (state * list state) * table :=
  fold_left (fun '(rest, G) e =>
               if existsb (fun s' => mem s' G) (snd e) then (rest, ins (fst e) G) else (e :: rest, G))
            (fst gr) ([], snd gr).

Definition can_reach (loop : bool) (k : nat) (target : state -> bool) (all : list state)
  : list (state * list state) * table :=
  let g0 := fold_left (fun '(rest, G) e => if target (fst e) then (rest, ins (fst e) G) else (e :: rest, G))
                      (graph loop all) ([], PositiveMap.empty _) in
  iter_pow2 k grow g0.

(* properties checked on every explored state *)
Definition holders (s : state) : list thread := filter in_cs (s_th s).
Definition mutex_ok (s : state) : bool :=
  negb (existsb writer_in_cs (s_th s)) || (length (holders s) =? 1).
Definition has_enabled (loop : bool) (s : state) : bool :=
  match succs loop s with [] => false | _ => true end.
Definition no_fault (loop : bool) (s : state) : bool :=
  negb (existsb (thread_faults loop s) (s_th s)).

Definition thread_in_cs (i : nat) (s : state) : bool :=
  match nth_error (s_th s) i with Some t => in_cs t | None => false end.

(* loop = true: no deadlock, no fault, mutual exclusion, every thread can reach
   its critical section from every reachable state *)
Definition check_loop (k kr : nat) (roles : list role) : bool :=
  let T := explore true k (init roles) in
  let all := all_states T in
  (* `if` rather than && : the VM is strict, and the later checks are expensive
     when the table is not closed (unbounded state space of a broken lock) *)
  if mem (init roles) T && closed true T then
    if forallb (fun s => has_enabled true s && no_fault true s && mutex_ok s) all then
      forallb (fun i => match fst (can_reach true kr (thread_in_cs i) all) with [] => true | _ => false end)
              (seq 0 (length roles))
    else false
  else false.

(* loop = false (one session per thread): every non-final state has an enabled
   step and can reach the state in which all threads have finished *)
Definition check_once (k kr : nat) (roles : list role) : bool :=
  let T := explore false k (init roles) in
  let all := all_states T in
  if mem (init roles) T && closed false T then
    if forallb (fun s => (all_finished s || has_enabled false s) && no_fault false s && mutex_ok s) all then
      match fst (can_reach false kr all_finished all) with [] => true | _ => false end
    else false
  else false.

Definition roles_of (nr nw : nat) : list role := repeat Reader nr ++ repeat Writer nw.

Definition count_states (loop : bool) (k : nat) (roles : list role) : nat :=
  length (all_states (explore loop k (init roles))).

(* instruction-level schedules (witness traces) *)
Fixpoint run_sched (loop : bool) (s : state) (sched : list nat) : option state :=
  match sched with
  | [] => Some s
  | i :: rest => match step_thread loop s i with
                 | Some s' => run_sched loop s' rest
                 | None => None
                 end
  end.
