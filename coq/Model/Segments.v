(* C06: definitions on top of the finished models (no proofs in this file).

   1. of_cfg / to_cfg: the component record of Model/ConfTlv.v (set_config) seen
      as the component record of Model/Bf3.v (writer/reader); bf3_set_config.
   2. Segments: a provenance-annotated re-statement of the BF3 writer.  Every
      piece the writer concatenates is tagged with where it comes from:
        Public    - to_bytes of an address / length / index / declared length,
                    the tag list, a plain blob, a constant
        CipherOut - the value returned by  enc k None (pad blob)  for a
                    component flagged encrypt_by_session_key
        MacOut    - a value returned by  mac k iv data
        WrapOut   - (BEC2 header) the value returned by the AES auth-block
                    container, enc wrapkey None (frame ...)
      Proofs/EncProofs.v shows that concatenating the segments gives exactly
      Model.Bf3.to_binary, and that the Public segments (and the lengths and
      positions of all others) do not change when encrypted blobs, session key,
      customer key, security code or the cipher itself are exchanged.
   3. A hand model of the BEC2 framing for the AES-based auth blocks:
      Bec2File.pack_auth_blocks / to_binary / write_file with
      InitCustKeyAuthBlock (packed by a SoftwareCustKeyEncryptor),
      UpdateAuthBlock (default ConfigSecurityCodeEncryptor) and UnknownAuthBlock,
      built on Model/AesContainer.v.  (The ECC block needs rng/ECDH: C09.)
   4. The output trace of write_file: Python evaluates the argument
      BF3_FILE_SIG + self.to_binary(...) before write_bf3_format is entered;
      write_bf3_format opens the path and performs the write() calls. *)
From Coq Require Import List Bool NArith ZArith Lia.
From Coq Require Import Init.Byte.
From Bec2 Require Import Base.Result Base.Bytes Base.Reader Gen.Consts
  Model.ConfTlv Model.AesContainer Model.Bf3.
Import ListNotations.
Open Scope N_scope.

(* ---- 1. set_config on a BF3 component list -------------------------------- *)
Definition of_cfg (c : ConfTlv.component) : comp :=
  Bf3.mkComp (c_descr c) (ConfTlv.c_blob c) (c_actual_len c) (c_sess c).
Definition to_cfg (c : comp) : ConfTlv.component :=
  ConfTlv.mkComp (c_desc c) (Bf3.c_blob c) (c_alen c) (c_enc c).

Definition bf3_set_config (cs : list comp) (d : cdict) (extra : list bytes) : result (list comp) :=
  rmap (map of_cfg) (set_config (map to_cfg cs) d extra).

(* ---- 2. segments ------------------------------------------------------------ *)
Inductive seg :=
| Public (b : bytes)
| CipherOut (b : bytes)
| MacOut (b : bytes)
| WrapOut (b : bytes).

Definition seg_bytes (s : seg) : bytes :=
  match s with Public b | CipherOut b | MacOut b | WrapOut b => b end.
Definition flatten (l : list seg) : bytes := flat_map seg_bytes l.

(* what is left of a segment list when the content of every non-public segment is
   forgotten (its kind, position and length stay) *)
Inductive shp := SPublic (b : bytes) | SCipher (n : N) | SMac (n : N) | SWrap (n : N).
Definition shape_of (s : seg) : shp :=
  match s with
  | Public b => SPublic b
  | CipherOut b => SCipher (blen b)
  | MacOut b => SMac (blen b)
  | WrapOut b => SWrap (blen b)
  end.
Definition shape (l : list seg) : list shp := map shape_of l.

Section Seg.
  Variable enc mac : bytes -> option bytes -> bytes -> result bytes.

  Definition seg_raw (c : comp) (k : bytes) : result seg :=
    if c_enc c then let* r := enc k None (pad (Bf3.c_blob c)) in Ok (CipherOut r)
    else Ok (Public (Bf3.c_blob c)).

  Definition seg_entry (c : comp) (ndx adr : N) (k : bytes) : result (list seg * seg) :=
    let* rs := seg_raw c k in
    let* pmac := mac k None (seg_bytes rs) in
    let* a := to_bytes 4 adr in
    let* tl := to_bytes 4 (blen (seg_bytes rs)) in
    let* al := to_bytes 4 (c_alen c) in
    let* tags := ser_tags (c_desc c) in
    let* tgl := to_bytes 1 (blen tags) in
    let pre := [Public (a ++ tl ++ al); MacOut pmac; Public (tgl ++ tags)] in
    let* iv := to_bytes 16 (1 + ndx) in
    let* emac := mac k (Some iv) (flatten pre) in
    Ok (pre ++ [MacOut emac], rs).

  Fixpoint seg_dir (cs : list comp) (ndx adr : N) (k : bytes) : result (list seg) :=
    match cs with
    | [] => Ok []
    | c :: t =>
      let* (entry, rs) := seg_entry c ndx adr k in
      let* el := to_bytes 1 (blen (flatten entry)) in
      let* rest := seg_dir t (ndx + 1) (adr + blen (seg_bytes rs)) k in
      Ok (Public el :: entry ++ rest)
    end.

  Definition seg_dir_to_binary (cs : list comp) (adr : N) (k : bytes) : result (list seg) :=
    let* d := seg_dir cs 0 adr k in
    let* sz := to_bytes 4 (blen (flatten d ++ [x00])) in
    Ok (Public sz :: d ++ [Public [x00]]).

  Fixpoint seg_payloads (cs : list comp) (k : bytes) : result (list seg) :=
    match cs with
    | [] => Ok []
    | c :: t => let* r := seg_raw c k in let* rest := seg_payloads t k in Ok (r :: rest)
    end.

  (* the first pass (default key) contributes nothing but the length of its result *)
  Definition seg_to_binary (cs : list comp) (off : N) (k : bytes) : result (list seg) :=
    let* d0 := seg_dir_to_binary cs 0 DEFAULT_SESSION_KEY in
    let* d := seg_dir_to_binary cs (off + blen (flatten d0)) k in
    let* p := seg_payloads cs k in
    Ok (d ++ p).
End Seg.

(* two component lists that agree on everything the writer treats as public:
   tags, declared length, the encryption flag, plain blobs, and the padded LENGTH of
   encrypted blobs *)
Definition pub_eq (c1 c2 : comp) : Prop :=
  c_desc c1 = c_desc c2 /\ c_alen c1 = c_alen c2 /\ c_enc c1 = c_enc c2 /\
  (if c_enc c1 then blen (pad (Bf3.c_blob c1)) = blen (pad (Bf3.c_blob c2))
   else Bf3.c_blob c1 = Bf3.c_blob c2).

(* ---- 3. BEC2 framing with AES auth blocks ----------------------------------- *)
Inductive ablock :=
| ABCustKey (wkey : bytes) (ck : option (bytes * N))   (* InitCustKeyAuthBlock + SoftwareCustKeyEncryptor(wkey, key, pos) *)
| ABUpdate (code : bytes) (version : N)                (* UpdateAuthBlock(code, version), default encryptor *)
| ABUnknown (tag : N) (raw : bytes).                   (* UnknownAuthBlock(tag, raw) *)

Definition ab_tag (a : ablock) : N :=
  match a with ABCustKey _ _ => TAG_CUSTKEY | ABUpdate _ _ => TAG_UPDATE | ABUnknown t _ => t end.

Definition ab_wrapped (a : ablock) : bool :=
  match a with ABUnknown _ _ => false | _ => true end.

(* CUSTOMER_KEY_PLACEHOLDER (ten zero bytes) is generated from the source: Gen/Consts.v *)

Section Bec2.
  Variable enc mac : bytes -> option bytes -> bytes -> result bytes.
  Variable sha256 : bytes -> bytes.

  Definition enc0 (k d : bytes) : result bytes := enc k None d.

  (* AuthBlock.pack(session_key, ext_encryptors) *)
  Definition ab_pack (a : ablock) (k : bytes) : result bytes :=
    match a with
    | ABCustKey wkey ck => ck_wrap enc0 wkey ck (CUSTOMER_KEY_PLACEHOLDER ++ k)
    | ABUpdate code v => let* vb := to_bytes 1 v in csc_wrap enc0 sha256 code (k ++ vb)
    | ABUnknown _ raw => Ok raw
    end.

  Fixpoint pack_auth_blocks (l : list ablock) (k : bytes) : result bytes :=
    match l with
    | [] => Ok [x00; x00]
    | a :: t =>
      let* raw := ab_pack a k in
      let* tg := to_bytes 1 (ab_tag a) in
      let* ln := to_bytes 1 (blen raw) in
      let* r := pack_auth_blocks t k in
      Ok (tg ++ ln ++ raw ++ r)
    end.

  Definition bec2_to_binary (l : list ablock) (cs : list comp) (k : bytes) : result bytes :=
    let* h := pack_auth_blocks l k in
    let header := BEC2_FILE_SIG ++ h in
    let* b := to_binary enc mac cs (blen header) k in
    Ok (header ++ b).

  Definition bec2_write_file (l : list ablock) (f : bf3) (k : bytes) : result str :=
    let* b := bec2_to_binary l (f_comps f) k in
    Ok (write_bf3_format (f_comments f) b).

  (* the same with provenance *)
  Definition seg_ab (a : ablock) (k : bytes) : result (list seg) :=
    let* raw := ab_pack a k in
    let* tg := to_bytes 1 (ab_tag a) in
    let* ln := to_bytes 1 (blen raw) in
    Ok [Public (tg ++ ln); if ab_wrapped a then WrapOut raw else Public raw].

  Fixpoint seg_auth_blocks (l : list ablock) (k : bytes) : result (list seg) :=
    match l with
    | [] => Ok [Public [x00; x00]]
    | a :: t =>
      let* s := seg_ab a k in
      let* r := seg_auth_blocks t k in
      Ok (s ++ r)
    end.

  Definition seg_bec2_to_binary (l : list ablock) (cs : list comp) (k : bytes) : result (list seg) :=
    let* h := seg_auth_blocks l k in
    let header := Public BEC2_FILE_SIG :: h in
    let* b := seg_to_binary enc mac cs (blen (flatten header)) k in
    Ok (header ++ b).
End Bec2.

(* auth blocks that agree on everything public: kind, key position, version, lengths;
   wrapping key, customer key and security code are arbitrary *)
Definition ck_pub_eq (a b : option (bytes * N)) : Prop :=
  match a, b with
  | None, None => True
  | Some (c1, p1), Some (c2, p2) => p1 = p2 /\ blen c1 = blen c2
  | _, _ => False
  end.
Definition ab_pub_eq (a b : ablock) : Prop :=
  match a, b with
  | ABCustKey _ ck1, ABCustKey _ ck2 => ck_pub_eq ck1 ck2
  | ABUpdate _ v1, ABUpdate _ v2 => v1 = v2
  | ABUnknown t1 r1, ABUnknown t2 r2 => t1 = t2 /\ r1 = r2
  | _, _ => False
  end.

(* ---- 4. output trace of write_file ------------------------------------------ *)
Inductive event := EvOpen | EvWrite (s : str) | EvClose.

Fixpoint hex_line_list (fuel : nat) (b : bytes) : list str :=
  match fuel with
  | O => []
  | S f => (hex_of_bytes (firstn 40 b) ++ [NL]) :: hex_line_list f (skipn 40 b)
  end.

(* Bf3File.write_bf3_format(bf3file, comments, rawdata): open (path only), one write
   for the comment lines, one for the empty line, one per hex line, close (path only) *)
Definition write_events (is_path : bool) (cm : comments) (raw : bytes) : list event :=
  (if is_path then [EvOpen] else []) ++
  [EvWrite (flat_map (fun '(k, v) => k ++ [COLON; SPACE] ++ v ++ [NL]) cm); EvWrite [NL]] ++
  map EvWrite (hex_line_list (N.to_nat (n_hex_lines (blen raw))) raw) ++
  (if is_path then [EvClose] else []).

Definition written (evs : list event) : str :=
  flat_map (fun e => match e with EvWrite s => s | _ => [] end) evs.

(* f(args): the arguments are evaluated first; an exception there means the callee
   never runs *)
Definition call_with_binary (is_path : bool) (cm : comments) (arg : result bytes)
  : list event * result unit :=
  match arg with
  | Err e => ([], Err e)
  | Ok raw => (write_events is_path cm raw, Ok tt)
  end.

Section Trace.
  Variable enc mac : bytes -> option bytes -> bytes -> result bytes.
  Variable sha256 : bytes -> bytes.

  (* Bf3File.write_file *)
  Definition write_file_io (is_path : bool) (f : bf3) (k : bytes) : list event * result unit :=
    call_with_binary is_path (f_comments f)
      (let* b := to_binary enc mac (f_comps f) (blen BF3_FILE_SIG) k in Ok (BF3_FILE_SIG ++ b)).

  (* Bec2File.write_file *)
  Definition bec2_write_file_io (is_path : bool) (l : list ablock) (f : bf3) (k : bytes)
    : list event * result unit :=
    call_with_binary is_path (f_comments f) (bec2_to_binary enc mac sha256 l (f_comps f) k).
End Trace.

(* equality tests for the correspondence *)
Definition event_eqb (a b : event) : bool :=
  match a, b with
  | EvOpen, EvOpen | EvClose, EvClose => true
  | EvWrite s, EvWrite t => str_eqb s t
  | _, _ => false
  end.
Definition trace_eqb (a b : list event * result unit) : bool :=
  list_eqb event_eqb (fst a) (fst b) && res_eqb (fun _ _ => true) (snd a) (snd b).
