(* C20 (part 2) - a PointJacobi object shared between threads.

   The store-site pass (Gen/JacobiStores.v) shows that after construction the
   object is mutated only by ONE store of a complete tuple to `__coords` (scale)
   and ONE store of a complete list to `__precompute` (_maybe_precompute), and that
   every read of these two fields takes the whole value in one attribute load.
   Hence the model: the object is two cells; an atomic action of a thread is one
   read or one store of a cell; the methods are small programs over these actions;
   any number of threads interleave their actions arbitrarily.

   CPython's atomicity of a single attribute load/store (GIL) is assumed. *)
From Coq Require Import List Bool ZArith.
Import ListNotations.

Section Shared.
  (* C: Jacobian coordinate triple (X, Y, Z); T: multiplication table (list of
     affine pairs); PT: value of a computed point (result of k*P, mul_add) *)
  Context {C T PT : Type}.

  Inductive res : Type :=
  | RUnit
  | RSelf                              (* the method returns the shared object itself *)
  | RInt (z : Z)                       (* x(), y() *)
  | RBool (b : bool)                   (* __eq__ *)
  | RAff (o : option (Z * Z))          (* to_affine(): INFINITY or Point(x, y) *)
  | RPt (p : PT).                      (* __mul__, mul_add *)

  Inductive prog : Type :=
  | Ret (a : res)
  | ReadC (k : C -> prog)              (* one load of self.__coords *)
  | ReadT (k : T -> prog)              (* one load of self.__precompute *)
  | WriteC (c : C) (k : prog)          (* self.__coords = c *)
  | WriteT (t : T) (k : prog).         (* self.__precompute = t *)

  Fixpoint bind (p : prog) (f : res -> prog) : prog :=
    match p with
    | Ret a => f a
    | ReadC k => ReadC (fun c => bind (k c) f)
    | ReadT k => ReadT (fun t => bind (k t) f)
    | WriteC c k => WriteC c (bind k f)
    | WriteT t k => WriteT t (bind k f)
    end.

  Definition mem : Type := (C * T)%type.

  (* a thread running alone *)
  Fixpoint seq_run (p : prog) (m : mem) : res * mem :=
    match p with
    | Ret a => (a, m)
    | ReadC k => seq_run (k (fst m)) m
    | ReadT k => seq_run (k (snd m)) m
    | WriteC c k => seq_run k (c, snd m)
    | WriteT t k => seq_run k (fst m, t)
    end.

  (* one atomic action of one thread *)
  Inductive tstep : prog * mem -> prog * mem -> Prop :=
  | ts_readc : forall k m, tstep (ReadC k, m) (k (fst m), m)
  | ts_readt : forall k m, tstep (ReadT k, m) (k (snd m), m)
  | ts_writec : forall c k m, tstep (WriteC c k, m) (k, (c, snd m))
  | ts_writet : forall t k m, tstep (WriteT t k, m) (k, (fst m, t)).

  Fixpoint upd (i : nat) (x : prog) (l : list prog) : list prog :=
    match l with
    | [] => []
    | a :: l' => match i with O => x :: l' | S i' => a :: upd i' x l' end
    end.

  (* any thread may move: every interleaving *)
  Inductive pstep : list prog * mem -> list prog * mem -> Prop :=
  | ps_step : forall i p p' ps m m',
      nth_error ps i = Some p -> tstep (p, m) (p', m') -> pstep (ps, m) (upd i p' ps, m').

  Inductive psteps : list prog * mem -> list prog * mem -> Prop :=
  | pss_refl : forall x, psteps x x
  | pss_step : forall x y z, psteps x y -> pstep y z -> psteps x z.

  (* ---- the methods of PointJacobi as programs ------------------------------- *)
  (* the arithmetic of the methods, abstracted (C17 is about these functions) *)
  Record ops : Type := mkOps {
    canon : C -> C;   (* (x*z^-2 mod p, y*z^-3 mod p, 1) *)
    scaled : C -> bool;   (* z == 1 *)
    aff_x : C -> Z;   (* x(), y(): x if z == 1 else x * inverse(z)^2 % p *)
    aff_y : C -> Z;
    is_inf : C -> bool;   (* not y or not z *)
    yzero : C -> bool;   (* not self.__coords[1] *)
    raw_xy : C -> Z * Z;   (* the X and Y components *)
    eq_other : C -> bool;   (* comparison of the coordinates with a fixed other point *)
    gen : bool;   (* self.__generator *)
    build : C -> T;   (* the table computed by _maybe_precompute from the coordinates *)
    nonempty : T -> bool;
    red : Z -> Z;   (* other % (order * 2), or identity without order *)
    inf_pt : PT;
    mul_table : T -> Z -> PT;   (* _mul_precompute *)
    mul_naf : C -> Z -> PT;   (* the NAF loop of __mul__ on scaled coordinates *)
    other_trivial : bool;   (* mul_add: other == INFINITY or other_mul == 0 *)
    other_tab : bool;   (* mul_add: other has a table *)
    other_mul : PT;   (* other * other_mul *)
    padd : res -> res;   (* (self * self_mul) + (other * other_mul) *)
    madd : C -> Z -> Z -> PT;   (* the interleaved double-and-add of mul_add on scaled coordinates *)
    c0 : C;   (* the coordinates the object was constructed with *)
    t0 : T    (* its table at the start: [] or already complete *)
  }.
  Variable O : ops.

  Definition op_x : prog := ReadC (fun c => Ret (RInt (aff_x O c))).
  Definition op_y : prog := ReadC (fun c => Ret (RInt (aff_y O c))).
  Definition op_eq : prog := ReadC (fun c => Ret (RBool (eq_other O c))).

  Definition op_scale : prog :=
    ReadC (fun c => if (scaled O) c then Ret RSelf else WriteC (canon O c) (Ret RSelf)).

  Definition op_to_affine : prog :=
    ReadC (fun c1 =>
      if (is_inf O) c1 then Ret (RAff None)
      else bind op_scale (fun _ => ReadC (fun c3 => Ret (RAff (Some (raw_xy O c3)))))).

  Definition op_maybe_precompute : prog :=
    ReadT (fun t =>
      if negb (gen O) || (nonempty O) t then Ret RUnit
      else ReadC (fun c => WriteT (build O c) (Ret RUnit))).

  Definition op_mul (k : Z) : prog :=
    ReadC (fun c =>
      if (yzero O) c || (k =? 0)%Z then Ret (RPt (inf_pt O))
      else if (k =? 1)%Z then Ret RSelf
      else
        bind op_maybe_precompute (fun _ =>
        ReadT (fun t =>
          if (nonempty O) t
          then ReadT (fun t2 => Ret (RPt (mul_table O t2 (red O k))))   (* _mul_precompute iterates over a second load *)
          else bind op_scale (fun _ => ReadC (fun c2 => Ret (RPt (mul_naf O c2 (red O k)))))))).

  Definition op_mul_add (k1 k2 : Z) : prog :=
    if (other_trivial O) then op_mul k1
    else if (k1 =? 0)%Z then Ret (RPt (other_mul O))
    else
      bind op_maybe_precompute (fun _ =>
      ReadT (fun t =>
        if (nonempty O) t && (other_tab O) then bind (op_mul k1) (fun a => Ret (padd O a))
        else bind op_scale (fun _ => ReadC (fun c => Ret (RPt (madd O c k1 k2)))))).

  (* ---- what a thread knows about the two cells -------------------------------
     Both cells only ever move from their old value (c0 / t0) to their new value
     (cN / tN); a thread that has seen or stored the new value knows it stays.
     (When the coordinates are already scaled, or the table is already there or
     the point is no generator, nothing is ever stored: new = old.) *)
  Definition cN : C := if (scaled O) (c0 O) then (c0 O) else (canon O) (c0 O).
  Definition tN : T := if (gen O) && negb (nonempty O (t0 O)) then (build O) (c0 O) else (t0 O).

  Definition know : Type := (bool * bool)%type.     (* (coords are new, table is new) *)

  Definition known (K : know) (m : mem) : Prop :=
    (fst K = true -> fst m = cN) /\ (snd K = true -> snd m = tN).
  Definition minv (m : mem) : Prop :=
    (fst m = (c0 O) \/ fst m = cN) /\ (snd m = (t0 O) \/ snd m = tN).

  (* `good K p Q`: from knowledge K, whatever the other threads do, p only stores
     new values and ends with knowledge K' and result a such that Q K' a *)
  Fixpoint good (K : know) (p : prog) (Q : know -> res -> Prop) : Prop :=
    match p with
    | Ret a => Q K a
    | ReadC k => (fst K = false -> good K (k (c0 O)) Q) /\ good (true, snd K) (k cN) Q
    | ReadT k => (snd K = false -> good K (k (t0 O)) Q) /\ good (fst K, true) (k tN) Q
    | WriteC c k => c = cN /\ good (true, snd K) k Q
    | WriteT t k => t = tN /\ good (fst K, true) k Q
    end.
End Shared.
