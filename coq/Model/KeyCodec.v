(* Model of the key / point / curve codecs of the vendored python-ecdsa:
     util.py        orderlen, number_to_string(_crop), string_to_number(_fixedlen)
     ellipticcurve  AbstractPoint.to_bytes / from_bytes (raw, uncompressed, hybrid, compressed)
     curves.py      Curve.to_der / Curve.from_der (named + explicit), find_curve
     keys.py        VerifyingKey.to_string/from_string/to_der/from_der/to_pem/from_pem,
                    SigningKey.to_string/from_string/to_der/from_der (ssleay = SEC1, pkcs8)
     bec2format/crypto.py  PublicEccKey.create_from_raw_fmt / to_raw_bin_fmt (27-byte header)
   on top of Model/Der.v, with the exception behaviour of the code as it is.

   External functions (Section variables, never axioms):
     sqrt_mod   numbertheory.square_root_mod_prime(alpha, p); None = numbertheory.Error
                (partial: RuntimeError("No b found") / AssertionError for composite p are
                 not modelled)
     order_ok   n * point == INFINITY (only evaluated when the cofactor is not 1)
     pubmul     curve.generator * secexp, scaled to affine coordinates
     ed_vk/ed_sk  everything that happens after control passes to the EdDSA classes
                (Edwards OIDs); not modelled.
   UnknownCurveError (a direct subclass of Exception, documented for find_curve) has no
   constructor of its own in Base/Result.v; it is represented by [EUnknownCurve := EBare]
   (python-ecdsa never raises a bare Exception on these paths; the harness maps
   UnknownCurveError to EBare). *)
From Coq Require Import List Bool NArith ZArith Lia.
From Coq Require Import Init.Byte.
From Bec2 Require Import Base.Result Base.Bytes Gen.KeyOids Model.Der.
Import ListNotations.
Open Scope N_scope.

Definition EUnknownCurve : err := EBare.
Definition EMalformedPoint : err := EAssert.      (* MalformedPointError(AssertionError) *)

(* ---- util.py ------------------------------------------------------------------- *)

(* (1 + len("%x" % order)) // 2 *)
Definition orderlen (order : N) : N := bytelen order.

(* len("%x" % n) *)
Definition hexdigits (n : N) : N := N.log2 n / 4 + 1.

(* binascii.unhexlify(("%0{2l}x" % num).encode()); assert len(string) == l.
   More than 2l hex digits: an odd count makes unhexlify raise binascii.Error
   (a ValueError), an even count fails the assert. *)
Definition number_to_string (num order : N) : result bytes :=
  let l := orderlen order in
  if hexdigits num <=? 2 * l then Ok (be (N.to_nat l) num)
  else if N.odd (hexdigits num) then Err EValue else Err EAssert.

Definition number_to_string_crop (num order : N) : result bytes :=
  let l := orderlen order in
  if hexdigits num <=? 2 * l then Ok (be (N.to_nat l) num)
  else if N.odd (hexdigits num) then Err EValue else Ok (takeN l (min_be num)).

Definition string_to_number (s : bytes) : result N := int_of_hex s.

Definition string_to_number_fixedlen (s : bytes) (order : N) : result N :=
  if blen s =? orderlen order then int_of_hex s else Err EAssert.

(* ---- curves ---------------------------------------------------------------------- *)

Record curve := mkCurve {
  c_p : N; c_a : Z; c_b : Z; c_gx : N; c_gy : N; c_n : N;
  c_h : option N;                  (* CurveFp cofactor: None when absent from explicit parameters *)
  c_oid : option (list N) }.

Definition baselen (c : curve) : N := orderlen (c_n c).
Definition vk_length (c : curve) : N := 2 * orderlen (c_p c).

(* a curve object: short Weierstrass, or one of the two Edwards curves of `curves` *)
Inductive cref := CW (c : curve) | CEd (ed448 : bool).

Definition Zmodp (a : Z) (p : N) : Z := Z.modulo a (Z.of_N p).

(* CurveFp.__eq__ *)
Definition curvefp_eqb (c d : curve) : bool :=
  (c_p c =? c_p d) && (Zmodp (c_a c) (c_p c) =? Zmodp (c_a d) (c_p c))%Z
                   && (Zmodp (c_b c) (c_p c) =? Zmodp (c_b d) (c_p c))%Z.

(* Curve.__eq__: same CurveFp and equal generators (PointJacobi.__eq__ with z = 1) *)
Definition curve_eqb (c d : curve) : bool :=
  curvefp_eqb c d &&
  (Zmodp (Z.of_N (c_gx c) - Z.of_N (c_gx d)) (c_p c) =? 0)%Z &&
  (Zmodp (Z.of_N (c_gy c) - Z.of_N (c_gy d)) (c_p c) =? 0)%Z.

(* CurveFp.contains_point *)
Definition contains_point (c : curve) (x y : N) : bool :=
  let x := Z.of_N x in let y := Z.of_N y in
  (Zmodp (y * y - ((x * x + c_a c) * x + c_b c)) (c_p c) =? 0)%Z.

Definition oid_eqb (a b : list N) : bool := list_eqb N.eqb a b.

(* ---- point encodings --------------------------------------------------------------- *)

Inductive penc := Raw | Uncompressed | Compressed | Hybrid.

(* valid_encodings as a set *)
Record encset := mkEncs { e_raw : bool; e_unc : bool; e_comp : bool; e_hyb : bool }.
Definition encs_all : encset := mkEncs true true true true.
Definition encs_der : encset := mkEncs false true true true.   (* {"uncompressed","compressed","hybrid"} *)
(* `if not valid_encodings:` an empty set means all *)
Definition encs_norm (e : encset) : encset :=
  if e_raw e || e_unc e || e_comp e || e_hyb e then e else encs_all.

Definition raw_encode (p x y : N) : result bytes :=
  let* xs := number_to_string x p in
  let* ys := number_to_string y p in
  Ok (xs ++ ys).

Definition point_to_bytes (p x y : N) (enc : penc) : result bytes :=
  match enc with
  | Raw => raw_encode p x y
  | Uncompressed => let* r := raw_encode p x y in Ok (x04 :: r)
  | Hybrid => let* r := raw_encode p x y in Ok ((if N.odd y then x07 else x06) :: r)
  | Compressed => let* xs := number_to_string x p in Ok ((if N.odd y then x03 else x02) :: xs)
  end.

Definition from_raw_encoding (data : bytes) (rel : N) : result (N * N) :=
  if negb (blen data =? rel) then Err EAssert else
  let* x := string_to_number (takeN (rel / 2) data) in
  let* y := string_to_number (dropN (rel / 2) data) in
  Ok (x, y).

(* keys: a Weierstrass key, or "handed to the EdDSA classes with these bytes" *)
Inductive vkey := VkW (c : curve) (x y : N) | VkEd (ed448 : bool) (enc : bytes).
Inductive skey := SkW (c : curve) (secexp : N) (px py : N) | SkEd (ed448 : bool) (enc : bytes).
Inductive cenc := NamedCurve | Explicit.
Inductive skfmt := Ssleay | Pkcs8.

(* object identifiers: generated from util.py / curves.py (Gen/KeyOids.v) *)
Definition PRIME_FIELD := PRIME_FIELD_OID.
Definition CHAR2_FIELD := CHARACTERISTIC_TWO_FIELD_OID.
Definition OID_ecPublicKey := oid_ecPublicKey.
Definition OID_ecDH := oid_ecDH.
Definition OID_ecMQV := oid_ecMQV.
Definition OID_Ed25519 := Ed25519_oid.
Definition OID_Ed448 := Ed448_oid.

(* the 17 short-Weierstrass Curve objects, generated from curves.py / ecdsa.py *)
Definition curve_of_row (r : wrow) : curve :=
  mkCurve (w_p r) (w_a r) (w_b r) (w_gx r) (w_gy r) (w_n r) (Some (w_h r)) (Some (w_oid r)).
(* the module-level list `curves` as (oid, object) *)
Definition known_curves : list (list N * cref) :=
  map (fun r => (w_oid r, CW (curve_of_row r))) wrows ++
  [(Ed25519_oid, CEd false); (Ed448_oid, CEd true)].
Definition NIST256p : curve := curve_of_row w_NIST256p.

Section Codec.
  Variable sqrt_mod : Z -> N -> option N.
  Variable order_ok : curve -> N -> N -> bool.
  Variable pubmul : curve -> N -> result (N * N).

  Definition from_compressed (c : curve) (data : bytes) : result (N * N) :=
    match data with
    | [] => Err EMalformedPoint
    | t :: xs =>
      if negb (byte_eqb t x02 || byte_eqb t x03) then Err EMalformedPoint else
      let is_even := byte_eqb t x02 in
      let* x := string_to_number xs in
      let p := c_p c in
      if p =? 0 then Err EValue else               (* pow(x, 3, 0): ValueError *)
      let xz := Z.of_N x in
      let alpha := Zmodp (Zmodp (xz * xz * xz) p + c_a c * xz + c_b c) p in
      match sqrt_mod alpha p with
      | None => Err EMalformedPoint
      | Some beta => Ok (x, if Bool.eqb is_even (N.odd beta) then p - beta else beta)
      end
    end.

  Definition from_hybrid (data : bytes) (rel : N) (validate : bool) : result (N * N) :=
    match data with
    | [] => Err EAssert
    | t :: r =>
      let* (x, y) := from_raw_encoding r rel in
      if validate && ((N.odd y && negb (byte_eqb t x07)) || (negb (N.odd y) && negb (byte_eqb t x06)))
      then Err EMalformedPoint else Ok (x, y)
    end.

  (* AbstractPoint.from_bytes for a CurveFp *)
  Definition point_from_bytes (c : curve) (data : bytes) (validate : bool) (ve : encset)
    : result (N * N) :=
    let ve := encs_norm ve in
    let key_len := blen data in
    let rel := 2 * orderlen (c_p c) in
    if (key_len =? rel) && e_raw ve then from_raw_encoding data rel
    else if (key_len =? rel + 1) && (e_hyb ve || e_unc ve) then
      match data with
      | [] => Err EMalformedPoint
      | t :: r =>
        if (byte_eqb t x06 || byte_eqb t x07) && e_hyb ve then from_hybrid data rel validate
        else if byte_eqb t x04 && e_unc ve then from_raw_encoding r rel
        else Err EMalformedPoint
      end
    else if (key_len =? rel / 2 + 1) && e_comp ve then from_compressed c data
    else Err EMalformedPoint.

  (* ---- keys ------------------------------------------------------------------------ *)

  Variable ed_vk : bool -> bytes -> result vkey.
  Variable ed_sk : bool -> bytes -> result skey.

  (* VerifyingKey.from_public_point -> ecdsa.Public_key.__init__ *)
  Definition vk_from_public_point (c : curve) (x y : N) (validate : bool) : result vkey :=
    if negb ((x <? c_p c) && (y <? c_p c)) then Err EMalformedPoint else
    if validate && negb (contains_point c x y) then Err EMalformedPoint else
    if c_n c =? 0 then Err EMalformedPoint else
    if validate && negb (match c_h c with Some 1 => true | _ => false end) && negb (order_ok c x y)
    then Err EMalformedPoint else Ok (VkW c x y).

  Definition vk_from_string (cr : cref) (s : bytes) (validate : bool) (ve : encset) : result vkey :=
    match cr with
    | CEd w => ed_vk w s
    | CW c =>
      let* (x, y) := point_from_bytes c s validate ve in
      vk_from_public_point c x y validate
    end.

  Definition vk_to_string (c : curve) (x y : N) (enc : penc) : result bytes :=
    point_to_bytes (c_p c) x y enc.

  (* ---- Curve.to_der / from_der ------------------------------------------------------- *)

  Definition curve_to_der (c : curve) (encoding : option cenc) (pe : penc) : result bytes :=
    let encoding := match encoding with
                    | Some e => e
                    | None => match c_oid c with Some _ => NamedCurve | None => Explicit end
                    end in
    match encoding with
    | NamedCurve =>
      match c_oid c with
      | None => Err EUnknownCurve
      | Some oid => encode_oid_tuple oid
      end
    | Explicit =>
      let p := c_p c in
      let version := encode_integer 1 in
      let* foid := encode_oid_tuple PRIME_FIELD in
      let field_id := encode_sequence [foid; encode_integer p] in
      let* astr := number_to_string (Z.to_N (Zmodp (c_a c) p)) p in
      let* bstr := number_to_string (Z.to_N (Zmodp (c_b c) p)) p in
      let curve := encode_sequence [encode_octet_string astr; encode_octet_string bstr] in
      let* g := point_to_bytes p (c_gx c) (c_gy c) pe in
      let base := encode_octet_string g in
      let order := encode_integer (c_n c) in
      let cof := match c_h c with
                 | Some h => if h =? 0 then [] else [encode_integer h]
                 | None => []
                 end in
      Ok (encode_sequence ([version; field_id; curve; base; order] ++ cof))
    end.

  (* the module-level list `curves`: (oid, object) *)
  Variable known : list (list N * cref).

  Fixpoint find_curve_in (l : list (list N * cref)) (oid : list N) : result cref :=
    match l with
    | [] => Err EUnknownCurve
    | (o, c) :: t => if oid_eqb o oid then Ok c else find_curve_in t oid
    end.
  Definition find_curve := find_curve_in known.

  (* for i in curves: if tmp_curve == i: return i *)
  Fixpoint match_known (l : list (list N * cref)) (tmp : curve) : curve :=
    match l with
    | [] => tmp
    | (_, CW c) :: t => if curve_eqb tmp c then c else match_known t tmp
    | (_, CEd _) :: t => match_known t tmp
    end.

  (* valid_encodings of Curve.from_der as (named allowed, explicit allowed); an empty set means both *)
  Definition curve_from_der (data : bytes) (ven vex : bool) : result cref :=
    let '(ven, vex) := if ven || vex then (ven, vex) else (true, true) in
    if negb (is_sequence data) then
      if negb ven then Err EUnexpectedDER else
      let* (oid, empty) := remove_object data in
      match empty with
      | _ :: _ => Err EUnexpectedDER
      | [] => find_curve oid
      end
    else
    if negb vex then Err EUnexpectedDER else
    let* (seq, empty) := remove_sequence data in
    match empty with _ :: _ => Err EUnexpectedDER | [] =>
    let* (version, rest) := remove_integer seq in
    if negb (version =? 1) then Err EUnexpectedDER else
    let* (field_id, rest) := remove_sequence rest in
    let* (curve, rest) := remove_sequence rest in
    let* (base_bytes, rest) := remove_octet_string rest in
    let* (order, rest) := remove_integer rest in
    let* cofactor := match rest with
                     | [] => Ok None
                     | _ => let* (h, _) := remove_integer rest in Ok (Some h)
                     end in
    let* (field_type, rest) := remove_object field_id in
    if oid_eqb field_type CHAR2_FIELD then Err EUnknownCurve else
    if negb (oid_eqb field_type PRIME_FIELD) then Err EUnknownCurve else
    let* (prime, empty) := remove_integer rest in
    match empty with _ :: _ => Err EUnexpectedDER | [] =>
    let* (a_bytes, rest) := remove_octet_string curve in
    let* (b_bytes, rest) := remove_octet_string rest in
    let* a := string_to_number a_bytes in
    let* b := string_to_number b_bytes in
    let fp := mkCurve prime (Z.of_N a) (Z.of_N b) 0 0 order cofactor None in
    let* (gx, gy) := point_from_bytes fp base_bytes true encs_der in
    let tmp := mkCurve prime (Z.of_N a) (Z.of_N b) gx gy order cofactor None in
    Ok (CW (match_known known tmp))
    end end.

  (* ---- VerifyingKey.to_der / from_der -------------------------------------------------- *)

  Definition vk_to_der (c : curve) (x y : N) (pe : penc) (ce : option cenc) : result bytes :=
    match pe with
    | Raw => Err EValue
    | _ =>
      let* point_str := vk_to_string c x y pe in
      let* pk := encode_oid_tuple OID_ecPublicKey in
      let* cd := curve_to_der c ce pe in
      let* bs := encode_bitstring point_str (BsInt 0) in
      Ok (encode_sequence [encode_sequence [pk; cd]; bs])
    end.

  Definition vk_from_der (s : bytes) (ve : option encset) (ven vex : bool) : result vkey :=
    let ve := match ve with None => encs_der | Some e => e end in
    let* (s1, empty) := remove_sequence s in
    match empty with _ :: _ => Err EUnexpectedDER | [] =>
    let* (s2, point_str_bitstring) := remove_sequence s1 in
    let* (oid_pk, rest) := remove_object s2 in
    if oid_eqb oid_pk OID_Ed25519 || oid_eqb oid_pk OID_Ed448 then
      let* (point_str, _, empty) := remove_bitstring point_str_bitstring (BsInt 0) in
      match empty with _ :: _ => Err EUnexpectedDER | [] => ed_vk (oid_eqb oid_pk OID_Ed448) point_str end
    else
    if negb (oid_eqb oid_pk OID_ecPublicKey) then Err EUnexpectedDER else
    let* cr := curve_from_der rest ven vex in
    let* (point_str, _, empty) := remove_bitstring point_str_bitstring (BsInt 0) in
    match empty with _ :: _ => Err EUnexpectedDER | [] =>
    match cr with
    | CEd w => ed_vk w point_str
    | CW c =>
      if blen point_str =? vk_length c then Err EUnexpectedDER else
      vk_from_string cr point_str true ve
    end end end.

  (* ---- SigningKey --------------------------------------------------------------------- *)

  Definition sk_from_secret_exponent (c : curve) (secexp : N) : result skey :=
    if negb ((1 <=? secexp) && (secexp <? c_n c)) then Err EMalformedPoint else
    let* (px, py) := pubmul c secexp in
    let* _ := vk_from_public_point c px py false in
    Ok (SkW c secexp px py).

  Definition sk_from_string (cr : cref) (s : bytes) : result skey :=
    match cr with
    | CEd w => ed_sk w s
    | CW c =>
      if negb (blen s =? baselen c) then Err EMalformedPoint else
      let* secexp := string_to_number s in
      sk_from_secret_exponent c secexp
    end.

  Definition sk_to_string (c : curve) (secexp : N) : result bytes :=
    number_to_string secexp (c_n c).

  Definition sk_to_der (c : curve) (secexp px py : N) (pe : penc) (fmt : skfmt) (ce : option cenc)
    : result bytes :=
    match pe with
    | Raw => Err EValue
    | _ =>
      let* encoded_vk := vk_to_string c px py pe in
      let* ks := sk_to_string c secexp in
      let* cd := curve_to_der c ce Uncompressed in
      let* c0 := encode_constructed 0 cd in
      let* bs := encode_bitstring encoded_vk (BsInt 0) in
      let* c1 := encode_constructed 1 bs in
      let elems := [encode_integer 1; encode_octet_string ks] ++
                   (match fmt with Ssleay => [c0] | Pkcs8 => [] end) ++ [c1] in
      let ec_private_key := encode_sequence elems in
      match fmt with
      | Ssleay => Ok ec_private_key
      | Pkcs8 =>
        let* pk := encode_oid_tuple OID_ecPublicKey in
        Ok (encode_sequence [encode_integer 1; encode_sequence [pk; cd];
                             encode_octet_string ec_private_key])
      end
    end.

  Definition sk_from_der (s : bytes) (ven vex : bool) : result skey :=
    let* (s, empty) := remove_sequence s in
    match empty with _ :: _ => Err EUnexpectedDER | [] =>
    let* (version, s) := remove_integer s in
    (* PKCS#8 wrapper: returns (curve, version, s) of the inner ECPrivateKey, or an Edwards key *)
    let* r :=
      if is_sequence s then
        if negb ((version =? 0) || (version =? 1)) then Err EUnexpectedDER else
        let* (sequence, s) := remove_sequence s in
        let* (algorithm_oid, algorithm_identifier) := remove_object sequence in
        if oid_eqb algorithm_oid OID_Ed25519 || oid_eqb algorithm_oid OID_Ed448 then
          match algorithm_identifier with _ :: _ => Err EUnexpectedDER | [] =>
          let* (key_str_der, _) := remove_octet_string s in
          let* (key_str, s') := remove_octet_string key_str_der in
          match s' with _ :: _ => Err EUnexpectedDER | [] =>
          let* k := ed_sk (oid_eqb algorithm_oid OID_Ed448) key_str in Ok (inl k)
          end end
        else
        if negb (oid_eqb algorithm_oid OID_ecPublicKey || oid_eqb algorithm_oid OID_ecDH
                 || oid_eqb algorithm_oid OID_ecMQV) then Err EUnexpectedDER else
        let* cr := curve_from_der algorithm_identifier ven vex in
        let* (s, _) := remove_octet_string s in
        let* (s, empty) := remove_sequence s in
        match empty with _ :: _ => Err EUnexpectedDER | [] =>
        let* (version, s) := remove_integer s in
        Ok (inr (Some cr, version, s))
        end
      else Ok (inr (None, version, s)) in
    match r with
    | inl k => Ok k
    | inr (curve, version, s) =>
      if negb (version =? 1) then Err EUnexpectedDER else
      let* (privkey_str, s) := remove_octet_string s in
      let* cr :=
        match curve with
        | Some cr => Ok cr
        | None =>
          let* (tag, curve_oid_str, _) := remove_constructed s in
          if negb (tag =? 0) then Err EUnexpectedDER else
          curve_from_der curve_oid_str ven vex
        end in
      match cr with
      | CEd w => ed_sk w privkey_str       (* len(privkey_str) < curve.baselen padding: in the oracle *)
      | CW c =>
        let privkey_str :=
          if blen privkey_str <? baselen c
          then zeros (N.to_nat (baselen c - blen privkey_str)) ++ privkey_str
          else privkey_str in
        sk_from_string cr privkey_str
      end
    end end.

  (* ---- PEM (partial: base64 opaque) ------------------------------------------------------ *)
  Variable b64encode : bytes -> bytes.
  Variable b64decode : bytes -> result bytes.

  Definition PUBLIC_KEY_LABEL : bytes := [ "P"; "U"; "B"; "L"; "I"; "C"; " "; "K"; "E"; "Y" ]%byte.

  Definition vk_to_pem (c : curve) (x y : N) (pe : penc) (ce : option cenc) : result bytes :=
    let* d := vk_to_der c x y pe ce in Ok (topem b64encode d PUBLIC_KEY_LABEL).

  Definition vk_from_pem (s : bytes) (ve : option encset) (ven vex : bool) : result vkey :=
    let* d := unpem b64decode s in vk_from_der d ve ven vex.

  (* ---- bec2format/crypto.py + the plug-in ------------------------------------------------- *)
  (* PublicEccKeyProxy.create_from_der_fmt: UnexpectedDER and MalformedPointError become
     ValueError; everything else propagates *)
  Definition create_from_der_fmt (d : bytes) : result vkey :=
    catch (vk_from_der d None true true)
          (fun e => err_eqb e EUnexpectedDER || err_eqb e EMalformedPoint) EValue.

  Definition create_from_raw_fmt (der_header raw : bytes) : result vkey :=
    create_from_der_fmt (der_header ++ raw).

  (* to_raw_bin_fmt: to_der()[der_header_len:] *)
  Definition to_raw_bin_fmt (der_header_len : N) (c : curve) (x y : N) : result bytes :=
    let* d := vk_to_der c x y Uncompressed None in Ok (dropN der_header_len d).
End Codec.

(* ---- structural equality of results (used by the correspondence harness) ------------------ *)
Definition curve_same (c d : curve) : bool :=
  (c_p c =? c_p d) && (c_a c =? c_a d)%Z && (c_b c =? c_b d)%Z && (c_gx c =? c_gx d) &&
  (c_gy c =? c_gy d) && (c_n c =? c_n d) && option_eqb N.eqb (c_h c) (c_h d) &&
  option_eqb oid_eqb (c_oid c) (c_oid d).

Definition cref_same (a b : cref) : bool :=
  match a, b with
  | CW c, CW d => curve_same c d
  | CEd x, CEd y => Bool.eqb x y
  | _, _ => false
  end.

Definition vkey_same (a b : vkey) : bool :=
  match a, b with
  | VkW c x y, VkW d u v => curve_same c d && (x =? u) && (y =? v)
  | VkEd w e, VkEd w' e' => Bool.eqb w w' && bytes_eqb e e'
  | _, _ => false
  end.

Definition skey_same (a b : skey) : bool :=
  match a, b with
  | SkW c k x y, SkW d k' u v => curve_same c d && (k =? k') && (x =? u) && (y =? v)
  | SkEd w e, SkEd w' e' => Bool.eqb w w' && bytes_eqb e e'
  | _, _ => false
  end.
