(* Generic CBC over an abstract 16-byte block function, and the model of the
   registered AES-128 adapter (appnotes/register_crypto_plugin/__init__.py,
   class AES128Proxy) on top of it.  The block function is a parameter: C16
   instantiates it with the model of the bundled pyaes cipher; correspondence
   runs of the container layer may instantiate it with the toy cipher below,
   registered in the implementation through register_AES128. *)
From Coq Require Import List Bool NArith ZArith Lia.
From Coq Require Import Init.Byte.
From Bec2 Require Import Base.Result Base.Bytes.
Import ListNotations.
Open Scope N_scope.

Definition xor_byte (a b : byte) : byte := n2b (N.lxor (b2n a) (b2n b)).

Fixpoint xor_bytes (a b : bytes) : bytes :=
  match a, b with
  | x :: a', y :: b' => xor_byte x y :: xor_bytes a' b'
  | _, _ => []
  end.

Definition zero_pad (d : bytes) : bytes :=
  d ++ zeros (N.to_nat ((16 - blen d mod 16) mod 16)).

Section CBC.
  Variable E D : bytes -> bytes -> bytes.   (* key -> block -> block *)

  Fixpoint cbc_enc (fuel : nat) (k prev d : bytes) : bytes :=
    match fuel with
    | O => []
    | S f =>
      match d with
      | [] => []
      | _ => let c := E k (xor_bytes (firstn 16 d) prev) in
             c ++ cbc_enc f k c (skipn 16 d)
      end
    end.

  Fixpoint cbc_dec (fuel : nat) (k prev d : bytes) : bytes :=
    match fuel with
    | O => []
    | S f =>
      match d with
      | [] => []
      | _ => let c := firstn 16 d in
             xor_bytes (D k c) prev ++ cbc_dec f k c (skipn 16 d)
      end
    end.

  Definition key_ok (k : bytes) : bool :=
    let n := blen k in (n =? 16) || (n =? 24) || (n =? 32).

  Definition the_iv (iv : option bytes) : bytes :=
    match iv with None => zeros 16 | Some v => v end.

  (* AES128Proxy.encrypt / decrypt / mac, with the mode constructor's checks *)
  Definition adapter_encrypt (k : bytes) (iv : option bytes) (d : bytes) : result bytes :=
    match d with
    | [] => Ok []
    | _ => if negb (key_ok k) then Err EValue
           else if negb (blen (the_iv iv) =? 16) then Err EValue
           else let p := zero_pad d in Ok (cbc_enc (length p) k (the_iv iv) p)
    end.

  Definition adapter_decrypt (k : bytes) (iv : option bytes) (d : bytes) : result bytes :=
    if negb (blen d mod 16 =? 0) then Err EValue else
    match d with
    | [] => Ok []
    | _ => if negb (key_ok k) then Err EValue
           else if negb (blen (the_iv iv) =? 16) then Err EValue
           else Ok (cbc_dec (length d) k (the_iv iv) d)
    end.

  Definition adapter_mac (k : bytes) (iv : option bytes) (d : bytes) : result bytes :=
    let* c := adapter_encrypt k iv d in Ok (lastN 16 c).
End CBC.

(* A toy block "cipher" used only to exercise the container logic with the
   cipher factored out (tools/props/toycipher.py registers the same function in
   the implementation).  E k b = reverse of the byte-wise (b + k + 1) mod 256. *)
Fixpoint add_bytes (a k : bytes) : bytes :=
  match a, k with
  | x :: a', y :: k' => n2b (b2n x + b2n y + 1) :: add_bytes a' k'
  | _, _ => []
  end.
Fixpoint sub_bytes (a k : bytes) : bytes :=
  match a, k with
  | x :: a', y :: k' => n2b (b2n x + 511 - b2n y) :: sub_bytes a' k'
  | _, _ => []
  end.
Definition toyE (k b : bytes) : bytes := rev (add_bytes b (firstn 16 k)).
Definition toyD (k c : bytes) : bytes := sub_bytes (rev c) (firstn 16 k).
