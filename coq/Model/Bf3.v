(* Hand-written executable model of bec2format/bf3file.py: Bf3Component,
   Bf3File.dir_to_binary / to_binary / write_bf3_format / write_file,
   dir_from_binary / from_binary / parse_bf3_file / read_file, hex2bin.
   The cipher triple (encrypt, decrypt, mac of the registered AES128 class:
   key -> optional iv -> data) is a Section variable, exactly as
   bec2format.crypto abstracts it behind register_AES128.
   No proofs in this file. *)
From Coq Require Import List Bool NArith ZArith Lia.
From Coq Require Import Init.Byte.
From Bec2 Require Import Base.Result Base.Bytes Base.Reader Gen.Consts.
Import ListNotations.
Open Scope N_scope.

(* ---- Python dict as association list in insertion order ------------------ *)
Section Dict.
  Context {K V : Type} (keq : K -> K -> bool).
  Fixpoint dict_get (d : list (K * V)) (k : K) : option V :=
    match d with
    | [] => None
    | (k', v) :: t => if keq k' k then Some v else dict_get t k
    end.
  Fixpoint dict_mem (d : list (K * V)) (k : K) : bool :=
    match d with
    | [] => false
    | (k', _) :: t => keq k' k || dict_mem t k
    end.
  (* d[k] = v : replace in place, or append *)
  Fixpoint dict_set (d : list (K * V)) (k : K) (v : V) : list (K * V) :=
    match d with
    | [] => [(k, v)]
    | (k', v') :: t => if keq k' k then (k', v) :: t else (k', v') :: dict_set t k v
    end.
  Fixpoint dict_del (d : list (K * V)) (k : K) : list (K * V) :=
    match d with
    | [] => []
    | (k', v') :: t => if keq k' k then t else (k', v') :: dict_del t k
    end.
End Dict.

Definition desc := list (N * bytes).           (* tag id -> value *)
Definition str := list N.                      (* code points *)
Definition comments := list (str * str).

Definition str_eqb : str -> str -> bool := list_eqb N.eqb.

Record comp := mkComp {
  c_desc : desc;
  c_blob : bytes;
  c_alen : N;
  c_enc : bool                               (* encrypt_by_session_key *)
}.

(* Bf3Component.__init__ : actual_len or len(blob) *)
Definition mk_comp (d : desc) (blob : bytes) (alen : option N) (e : bool) : comp :=
  mkComp d blob
    (match alen with Some 0 | None => blen blob | Some n => n end) e.

Record bf3 := mkBf3 { f_comments : comments; f_comps : list comp }.

(* crypto.pad : data + zeros(-len % 16)   (pad_length generated from the source) *)
Definition pad (d : bytes) : bytes :=
  d ++ zeros (Z.to_nat (pad_length (Z.of_N (blen d)))).

Section Cipher.
  Variable enc dec mac : bytes -> option bytes -> bytes -> result bytes.

  Definition raw_data (c : comp) (k : bytes) : result bytes :=
    if c_enc c then enc k None (pad (c_blob c)) else Ok (c_blob c).

  Fixpoint ser_tags (d : desc) : result bytes :=
    match d with
    | [] => Ok []
    | (id, v) :: t =>
      let* i := to_bytes 1 id in
      let* l := to_bytes 1 (blen v) in
      let* r := ser_tags t in
      Ok (i ++ l ++ v ++ r)
    end.

  (* one directory entry, without its leading length byte *)
  Definition ser_entry (c : comp) (ndx adr : N) (k : bytes) : result (bytes * bytes) :=
    let* raw := raw_data c k in
    let* pmac := mac k None raw in
    let* a := to_bytes 4 adr in
    let* tl := to_bytes 4 (blen raw) in
    let* al := to_bytes 4 (c_alen c) in
    let* tags := ser_tags (c_desc c) in
    let* tgl := to_bytes 1 (blen tags) in
    let body := a ++ tl ++ al ++ pmac ++ tgl ++ tags in
    let* iv := to_bytes 16 (1 + ndx) in
    let* emac := mac k (Some iv) body in
    Ok (body ++ emac, raw).

  Fixpoint ser_dir (cs : list comp) (ndx adr : N) (k : bytes) : result bytes :=
    match cs with
    | [] => Ok []
    | c :: t =>
      let* (entry, raw) := ser_entry c ndx adr k in
      let* el := to_bytes 1 (blen entry) in
      let* rest := ser_dir t (ndx + 1) (adr + blen raw) k in
      Ok (el ++ entry ++ rest)
    end.

  Definition dir_to_binary (cs : list comp) (adr : N) (k : bytes) : result bytes :=
    let* d := ser_dir cs 0 adr k in
    let dd := d ++ [x00] in
    let* sz := to_bytes 4 (blen dd) in
    Ok (sz ++ dd).

  Fixpoint payloads (cs : list comp) (k : bytes) : result bytes :=
    match cs with
    | [] => Ok []
    | c :: t => let* r := raw_data c k in let* rest := payloads t k in Ok (r ++ rest)
    end.

  (* Bf3File.to_binary(offset, session_key): a first pass with the default
     arguments measures the directory, the second pass uses real addresses *)
  Definition to_binary (cs : list comp) (off : N) (k : bytes) : result bytes :=
    let* d0 := dir_to_binary cs 0 DEFAULT_SESSION_KEY in
    let* d := dir_to_binary cs (off + blen d0) k in
    let* p := payloads cs k in
    Ok (d ++ p).

  (* ---- reader ------------------------------------------------------------- *)

  (* the tag loop of dir_from_binary; fuel = number of bytes + 1 *)
  Fixpoint parse_tags (fuel : nat) (r : reader) (acc : desc) : result desc :=
    match fuel with
    | O => Err EFuel
    | S f =>
      if rd_eof r then Ok acc else
      let* (id, r1) := rd_read_int 1 r in
      let* (tl, r2) := rd_read_int 1 r1 in
      let* (tv, r3) := rd_read tl r2 in
      if dict_mem N.eqb acc id then Err EBf3
      else parse_tags f r3 (dict_set N.eqb acc id tv)
    end.

  Record dentry := mkDentry {
    e_adr : N; e_total : N; e_alen : N; e_pmac : bytes; e_desc : desc
  }.

  Definition parse_entry (entry : bytes) (ndx : N) (check : bool) (k : bytes) : result (dentry * reader) :=
    let er := new_reader entry in
    let* (adr, er) := rd_read_int 4 er in
    let* (total, er) := rd_read_int 4 er in
    let* (alen, er) := rd_read_int 4 er in
    if total <? alen then Err EBf3 else
    let* (pmac, er) := rd_read CMAC_SIZE er in
    let* iv := to_bytes 16 ndx in
    let* (dl, er) := rd_read_int 1 er in
    let* (db, er) := rd_read dl er in
    let* d := parse_tags (S (length db)) (new_reader db) [] in
    let* (stored, er) := rd_read CMAC_SIZE er in
    let* _ := (if check then
                 let* actual := mac k (Some iv) (takeN (blen entry - CMAC_SIZE) entry) in
                 if bytes_eqb stored actual then Ok tt else Err EBf3
               else Ok tt) in
    Ok (mkDentry adr total alen pmac d, er).

  Fixpoint parse_dir (fuel : nat) (dr : reader) (len ndx : N) (check : bool) (k : bytes)
                     (acc : list dentry) : result (list dentry * reader) :=
    match fuel with
    | O => Err EFuel
    | S f =>
      if len =? 0 then Ok (rev acc, dr) else
      let* (entry, dr) := rd_read len dr in
      let* (e, er) := parse_entry entry ndx check k in
      let* (len', dr) := rd_read_int 1 dr in
      let* _ := rd_ensure_eof er in
      parse_dir f dr len' (ndx + 1) check k (e :: acc)
    end.

  Definition dir_from_binary (r : reader) (check : bool) (k : bytes) : result (list dentry * reader) :=
    let* (total, r) := rd_read_int 4 r in
    let* (db, r) := rd_read total r in
    let dr := new_reader db in
    let* (len, dr) := rd_read_int 1 dr in
    let* (es, dr) := parse_dir (S (length db)) dr len 1 check k [] in
    let* _ := rd_ensure_eof dr in
    Ok (es, r).

  Definition enc_tag_value : bytes := [n2b BF3ENC_SESSIONKEY].

  Fixpoint read_comps (es : list dentry) (r : reader) (check : bool) (k : bytes)
                      : result (list comp * reader) :=
    match es with
    | [] => Ok ([], r)
    | e :: t =>
      if negb (e_adr e =? pos r) then Err EBf3 else
      let* (payload, r) := rd_read (e_total e) r in
      let* _ := (if check then
                   let* m := mac k None payload in
                   if bytes_eqb m (e_pmac e) then Ok tt else Err EBf3
                 else Ok tt) in
      let* c := (match dict_get N.eqb (e_desc e) BF3TAG_ENC with
                 | Some v =>
                   if bytes_eqb v enc_tag_value
                   then let* b := dec k None payload in Ok (mk_comp (e_desc e) b (Some (e_alen e)) true)
                   else Ok (mk_comp (e_desc e) payload (Some (e_alen e)) false)
                 | None => Ok (mk_comp (e_desc e) payload (Some (e_alen e)) false)
                 end) in
      let* (cs, r) := read_comps t r check k in
      Ok (c :: cs, r)
    end.

  Definition from_binary (r : reader) (check : bool) (k : bytes) : result (list comp) :=
    let* (es, r) := dir_from_binary r check k in
    let* (cs, r) := read_comps es r check k in
    let* _ := rd_ensure_eof r in
    Ok cs.
End Cipher.

(* ---- text layer ------------------------------------------------------------ *)

(* str.isspace / regex \s for str patterns (Py_UNICODE_ISSPACE) *)
Definition is_space (c : N) : bool :=
  ((9 <=? c) && (c <=? 13)) || ((28 <=? c) && (c <=? 32)) || (c =? 133) || (c =? 160) ||
  (c =? 0x1680) || ((0x2000 <=? c) && (c <=? 0x200A)) || (c =? 0x2028) || (c =? 0x2029) ||
  (c =? 0x202F) || (c =? 0x205F) || (c =? 0x3000).

Fixpoint lstrip (s : str) : str :=
  match s with
  | c :: t => if is_space c then lstrip t else s
  | [] => []
  end.
Definition strip (s : str) : str := rev (lstrip (rev (lstrip s))).

(* hex2bin: characters removed by sub(r"[\s,-/:]", "", s) *)
Definition hex_removed (c : N) : bool :=
  is_space c || ((0x2C <=? c) && (c <=? 0x2F)) || (c =? 0x3A).

Definition hex_val (c : N) : option N :=
  if (48 <=? c) && (c <=? 57) then Some (c - 48)
  else if (65 <=? c) && (c <=? 70) then Some (c - 55)
  else if (97 <=? c) && (c <=? 102) then Some (c - 87)
  else None.

Fixpoint unhexlify (s : str) : result bytes :=
  match s with
  | [] => Ok []
  | a :: b :: t =>
    match hex_val a, hex_val b with
    | Some x, Some y => let* r := unhexlify t in Ok (n2b (16 * x + y) :: r)
    | _, _ => Err EValue
    end
  | _ => Err EValue
  end.

Definition hex2bin (s : str) : result bytes :=
  let clean := filter (fun c => negb (hex_removed c)) s in
  let clean :=
    if N.odd (blen clean)
    then match rev clean with
         | last :: front => rev front ++ [48; last]
         | [] => clean
         end
    else clean in
  unhexlify clean.

Definition hexdigit (n : N) : N := if n <? 10 then 48 + n else 55 + n.   (* upper case *)
Definition hex_of_bytes (b : bytes) : str :=
  flat_map (fun x => [hexdigit (b2n x / 16); hexdigit (b2n x mod 16)]) b.

Definition NL : N := 10.
Definition COLON : N := 58.
Definition SPACE : N := 32.

(* the hex lines of write_bf3_format: for pos in range(0, len + 39, 40) *)
Fixpoint hex_lines (fuel : nat) (b : bytes) : str :=
  match fuel with
  | O => []
  | S f => hex_of_bytes (firstn 40 b) ++ [NL] ++ hex_lines f (skipn 40 b)
  end.
(* len(range(0, len + 39, 40)) = ceil((len + 39) / 40) *)
Definition n_hex_lines (len : N) : N :=
  (len + (END_OF_LINE / 2 - 1) + (END_OF_LINE / 2 - 1)) / (END_OF_LINE / 2).

Definition write_bf3_format (cm : comments) (raw : bytes) : str :=
  flat_map (fun '(k, v) => k ++ [COLON; SPACE] ++ v ++ [NL]) cm ++ [NL] ++
  hex_lines (N.to_nat (n_hex_lines (blen raw))) raw.

(* readline on a text stream: up to and including the first "\n" *)
Fixpoint readline (s : str) : str * str :=
  match s with
  | [] => ([], [])
  | c :: t => if c =? NL then ([c], t) else let (l, r) := readline t in (c :: l, r)
  end.

(* line.split(":", 1) *)
Fixpoint split_colon (s : str) : option (str * str) :=
  match s with
  | [] => None
  | c :: t => if c =? COLON then Some ([], t)
              else match split_colon t with Some (a, b) => Some (c :: a, b) | None => None end
  end.

Fixpoint parse_comments (fuel : nat) (s : str) (acc : comments) : result (comments * str) :=
  match fuel with
  | O => Err EFuel
  | S f =>
    let (line, rest) := readline s in
    if str_eqb line [NL] then Ok (acc, rest) else
    match split_colon line with
    | None => Err EBf3                      (* unpack of a 1-element split: ValueError -> Bf3FileFormatError *)
    | Some (k, v) => parse_comments f rest (dict_set str_eqb acc k (strip v))
    end
  end.

Definition parse_bf3_file (text : str) : result (bytes * comments) :=
  let* (cm, rest) := parse_comments (S (length text)) text [] in
  let* b := catch (hex2bin rest) is_value EBf3 in
  Ok (b, cm).

(* newline translation of path I/O: open(path, "w", newline="\r\n") then open(path, "r") *)
Definition CR : N := 13.
Fixpoint crlf_out (s : str) : str :=
  match s with
  | [] => []
  | c :: t => if c =? NL then CR :: NL :: crlf_out t else c :: crlf_out t
  end.
Fixpoint universal_in (s : str) : str :=
  match s with
  | [] => []
  | c :: t =>
    if c =? CR then
      match t with
      | c2 :: t2 => if c2 =? NL then NL :: universal_in t2 else NL :: universal_in t
      | [] => [NL]
      end
    else c :: universal_in t
  end.

Section CipherText.
  Variable enc dec mac : bytes -> option bytes -> bytes -> result bytes.

  Definition write_file (f : bf3) (k : bytes) : result str :=
    let* b := to_binary enc mac (f_comps f) (blen BF3_FILE_SIG) k in
    Ok (write_bf3_format (f_comments f) (BF3_FILE_SIG ++ b)).

  Definition read_file (text : str) (check : bool) (k : bytes) : result bf3 :=
    let* (b, cm) := parse_bf3_file text in
    let r := new_reader b in
    let* (hd, r) := rd_read (blen BF3_FILE_SIG) r in
    if negb (bytes_eqb hd BF3_FILE_SIG) then Err EBf3 else
    let* cs := from_binary dec mac r check k in
    Ok (mkBf3 cm cs).
End CipherText.
