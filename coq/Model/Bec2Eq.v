(* Toy ECC plug-in (mirrors tools/props/toyecc.py, registered in the
   implementation through register_PublicEccKey / register_PrivateEccKey /
   register_random_bytes) and decidable equalities for correspondence files. *)
From Coq Require Import List Bool NArith.
From Coq Require Import Init.Byte.
From Bec2 Require Import Base.Result Base.Bytes Model.Bf3 Model.Bf3Eq Model.Bec2.
Import ListNotations.
Open Scope N_scope.

Definition toyP : N := 2305843009213693951.   (* 2^61 - 1 *)
Definition toyG : N := 3.

Fixpoint pow_mod_pos (b : N) (e : positive) (m : N) : N :=
  match e with
  | xH => b mod m
  | xO e' => let t := pow_mod_pos b e' m in (t * t) mod m
  | xI e' => let t := pow_mod_pos b e' m in ((t * t) mod m * b) mod m
  end.
Definition pow_mod (b e m : N) : N :=
  match e with N0 => 1 mod m | Npos p => pow_mod_pos b p m end.

Definition toy_keygen (i : N) : privkey :=
  be 32 (((i + 1) * 0x9E3779B97F4A7C15) mod (toyP - 1) + 1).
Definition toy_pub_of (d : privkey) : bytes := be 64 (pow_mod toyG (from_be d) toyP).
Definition toy_valid_pub (raw : bytes) : bool := negb (from_be raw mod toyP =? 0).
Definition toy_ecdh (d : privkey) (raw : bytes) : bytes :=
  be 32 (pow_mod (from_be raw mod toyP) (from_be d) toyP).
Definition toy_rand16 (i : N) : bytes :=
  be 16 (((i + 1) * 0x9E3779B97F4A7C15F39CC0605CEDC835) mod (2 ^ 128)).

Definition authblock_eqb (a b : authblock) : bool :=
  match a, b with
  | ABCustKey, ABCustKey => true
  | ABEcc s, ABEcc t => s =? t
  | ABUpdate c v, ABUpdate d w => bytes_eqb c d && (v =? w)
  | ABUnknown t r, ABUnknown u s => (t =? u) && bytes_eqb r s
  | _, _ => false
  end.

Definition bec2_eqb (a b : bec2) : bool :=
  bf3_eqb (b_bf3 a) (b_bf3 b) &&
  list_eqb (prod_eqb N.eqb authblock_eqb) (b_blocks a) (b_blocks b) &&
  bytes_eqb (b_key a) (b_key b).
