(* Executable model of the bundled block cipher
   (/repo/appnotes/register_crypto_plugin/pyaes/aes.py, class AES): key schedule
   incl. the Kd transformation through U1..U4, T-table rounds of encrypt/decrypt.
   The fourteen tables, rcon and number_of_rounds come from Gen/AesTables.v
   (regenerated from the source on every run); the code is modelled by hand and
   tied by the correspondence run of tools/props/C16.py.

   Words are the low 32 bits as N.  pyaes reads the key with struct.unpack('>i')
   (signed) and never masks intermediate words, but every use of a word goes
   through (w >> s) & 0xFF with s in {0,8,16,24}, which depends on the low 32 bits
   only; xor commutes with taking the low 32 bits.  So the sign extension is
   unobservable and is not modelled.

   Interface for the rest of the project:  aes_E aes_D : bytes -> bytes -> bytes
   (key -> block -> block), total; lemmas in Proofs/AesProofs.v. *)
From Coq Require Import List Bool NArith Lia.
From Coq Require Import Init.Byte.
From Bec2 Require Import Base.Result Base.Bytes Gen.AesTables.
Import ListNotations.
Open Scope N_scope.

(* ---- table access: a binary trie over the bits of the index (LSB first), built
   once from the generated list; index >= 256 is never used (indices are & 0xFF) -- *)
Inductive trie : Set := TLeaf (v : N) | TNode (l r : trie).

Fixpoint split_eo (l : list N) : list N * list N :=
  match l with
  | [] => ([], [])
  | [x] => ([x], [])
  | x :: y :: r => let (e, o) := split_eo r in (x :: e, y :: o)
  end.
Fixpoint mk_trie (depth : nat) (l : list N) : trie :=
  match depth with
  | O => TLeaf (hd 0 l)
  | S d => let (e, o) := split_eo l in TNode (mk_trie d e) (mk_trie d o)
  end.
Fixpoint tget_zero (t : trie) : N :=
  match t with TLeaf v => v | TNode l _ => tget_zero l end.
Fixpoint tget_pos (t : trie) (p : positive) : N :=
  match t with
  | TLeaf v => v
  | TNode l r => match p with xO q => tget_pos l q | xI q => tget_pos r q | xH => tget_zero r end
  end.
Definition tget (t : trie) (i : N) : N :=
  match i with N0 => tget_zero t | Npos p => tget_pos t p end.

Definition S_t  : trie := Eval vm_compute in mk_trie 8 S_tbl.
Definition Si_t : trie := Eval vm_compute in mk_trie 8 Si_tbl.
Definition T1_t : trie := Eval vm_compute in mk_trie 8 T1_tbl.
Definition T2_t : trie := Eval vm_compute in mk_trie 8 T2_tbl.
Definition T3_t : trie := Eval vm_compute in mk_trie 8 T3_tbl.
Definition T4_t : trie := Eval vm_compute in mk_trie 8 T4_tbl.
Definition T5_t : trie := Eval vm_compute in mk_trie 8 T5_tbl.
Definition T6_t : trie := Eval vm_compute in mk_trie 8 T6_tbl.
Definition T7_t : trie := Eval vm_compute in mk_trie 8 T7_tbl.
Definition T8_t : trie := Eval vm_compute in mk_trie 8 T8_tbl.
Definition U1_t : trie := Eval vm_compute in mk_trie 8 U1_tbl.
Definition U2_t : trie := Eval vm_compute in mk_trie 8 U2_tbl.
Definition U3_t : trie := Eval vm_compute in mk_trie 8 U3_tbl.
Definition U4_t : trie := Eval vm_compute in mk_trie 8 U4_tbl.

(* ---- words ------------------------------------------------------------------ *)

Definition byte3 (w : N) : N := N.land (N.shiftr w 24) 255.   (* (w >> 24) & 0xFF *)
Definition byte2 (w : N) : N := N.land (N.shiftr w 16) 255.
Definition byte1 (w : N) : N := N.land (N.shiftr w 8) 255.
Definition byte0 (w : N) : N := N.land w 255.

Notation "a ^^ b" := (N.lxor a b) (at level 50, left associativity).

(* _compact_word / struct.unpack('>i') on four bytes (low 32 bits) *)
Definition compact_word (a b c d : byte) : N :=
  N.lor (N.lor (N.lor (N.shiftl (b2n a) 24) (N.shiftl (b2n b) 16)) (N.shiftl (b2n c) 8)) (b2n d).

Inductive w4 : Set := W4 (a b c d : N).

Definition bget (l : bytes) (i : nat) : byte := nth i l x00.
Definition word_at (l : bytes) (i : nat) : N :=
  compact_word (bget l i) (bget l (i + 1)) (bget l (i + 2)) (bget l (i + 3)).

(* ---- AES.__init__: key expansion --------------------------------------------- *)

(* tk = [struct.unpack('>i', key[i:i+4])[0] for i in range(0, len(key), 4)] *)
Fixpoint key_to_words (n : nat) (key : bytes) : list N :=
  match n with
  | O => []
  | S k => word_at key 0 :: key_to_words k (skipn 4 key)
  end.

(* (S[(tt>>16)&0xFF] << 24) ^ (S[(tt>>8)&0xFF] << 16) ^ (S[tt&0xFF] << 8) ^ S[(tt>>24)&0xFF] ^ (rcon << 24) *)
Definition sub_rot_rcon (tt rc : N) : N :=
  N.shiftl (tget S_t (byte2 tt)) 24 ^^ N.shiftl (tget S_t (byte1 tt)) 16 ^^
  N.shiftl (tget S_t (byte0 tt)) 8 ^^ tget S_t (byte3 tt) ^^ N.shiftl rc 24.
(* S[tt&0xFF] ^ (S[(tt>>8)&0xFF] << 8) ^ (S[(tt>>16)&0xFF] << 16) ^ (S[(tt>>24)&0xFF] << 24) *)
Definition sub_word (tt : N) : N :=
  tget S_t (byte0 tt) ^^ N.shiftl (tget S_t (byte1 tt)) 8 ^^
  N.shiftl (tget S_t (byte2 tt)) 16 ^^ N.shiftl (tget S_t (byte3 tt)) 24.

(* for i in range(a, b): tk[i] ^= tk[i-1], on the sub-list starting at index a, prev = tk[a-1] *)
Fixpoint xor_chain (prev : N) (l : list N) : list N :=
  match l with
  | [] => []
  | x :: r => let y := x ^^ prev in y :: xor_chain y r
  end.

(* one pass of the body of `while t < round_key_count` on tk (KC = len tk) *)
Definition next_tk (KC : nat) (rc : N) (tk : list N) : list N :=
  match tk with
  | [] => []
  | t0 :: rest =>
    let t0' := t0 ^^ sub_rot_rcon (last tk 0) rc in
    if Nat.eqb KC 8 then
      let half := Nat.div KC 2 in
      let lo := t0' :: xor_chain t0' (firstn (half - 1) rest) in
      match skipn (half - 1) rest with
      | [] => lo
      | tm :: hi => let tm' := tm ^^ sub_word (last lo 0) in lo ++ tm' :: xor_chain tm' hi
      end
    else t0' :: xor_chain t0' rest
  end.

(* the words copied into the round key arrays, in order of t:
   flat[t] = Ke[t // 4][t % 4] = Kd[rounds - t // 4][t % 4] (before the Kd transformation) *)
Fixpoint expand_loop (fuel KC : nat) (rkc t : nat) (rp : nat) (tk flat : list N) : list N :=
  match fuel with
  | O => flat
  | S f =>
    if Nat.ltb t rkc then
      let tk' := next_tk KC (nth rp rcon_tbl 0) tk in
      let n := Nat.min KC (rkc - t) in
      expand_loop f KC rkc (t + n) (S rp) tk' (flat ++ firstn n tk')
    else flat
  end.

Definition rounds_of (keylen : N) : option N :=
  match find (fun p => fst p =? keylen) number_of_rounds_tbl with
  | Some p => Some (snd p)
  | None => None
  end.

Fixpoint rows (flat : list N) : list w4 :=
  match flat with
  | a :: b :: c :: d :: r => W4 a b c d :: rows r
  | _ => []
  end.

(* self._Ke as rows; key must have 16/24/32 bytes (checked by the callers below) *)
Definition expand_Ke (key : bytes) : list w4 :=
  match rounds_of (blen key) with
  | None => []
  | Some r =>
    let rounds := N.to_nat r in
    let KC := Nat.div (length key) 4 in
    let rkc := ((rounds + 1) * 4)%nat in
    let tk := key_to_words KC key in
    rows (expand_loop rkc KC rkc KC 0 tk (firstn rkc tk))
  end.

(* self._Kd: the same words with the round order reversed, then rows 1..rounds-1
   passed through U1..U4 *)
Definition inv_mix_word (tt : N) : N :=
  tget U1_t (byte3 tt) ^^ tget U2_t (byte2 tt) ^^ tget U3_t (byte1 tt) ^^ tget U4_t (byte0 tt).
Definition inv_mix_row (k : w4) : w4 :=
  match k with W4 a b c d => W4 (inv_mix_word a) (inv_mix_word b) (inv_mix_word c) (inv_mix_word d) end.
Fixpoint kd_tail (r : list w4) : list w4 :=       (* everything after row 0: transform all but the last *)
  match r with
  | [] => []
  | [k] => [k]
  | k :: r' => inv_mix_row k :: kd_tail r'
  end.
Definition Kd_of_Ke (ke : list w4) : list w4 :=
  match rev ke with [] => [] | k :: r => k :: kd_tail r end.
Definition expand_Kd (key : bytes) : list w4 := Kd_of_Ke (expand_Ke key).

(* ---- AES.encrypt / AES.decrypt ------------------------------------------------ *)

Definition xor_w4 (t k : w4) : w4 :=
  match t, k with W4 t0 t1 t2 t3, W4 k0 k1 k2 k3 => W4 (t0 ^^ k0) (t1 ^^ k1) (t2 ^^ k2) (t3 ^^ k3) end.
Definition block_words (b : bytes) : w4 := W4 (word_at b 0) (word_at b 4) (word_at b 8) (word_at b 12).

(* a[i] = T1[(t[i]>>24)&0xFF] ^ T2[(t[(i+1)%4]>>16)&0xFF] ^ T3[(t[(i+2)%4]>>8)&0xFF] ^ T4[t[(i+3)%4]&0xFF] ^ Ke[r][i] *)
Definition enc_round (t k : w4) : w4 :=
  match t, k with
  | W4 t0 t1 t2 t3, W4 k0 k1 k2 k3 =>
    W4 (tget T1_t (byte3 t0) ^^ tget T2_t (byte2 t1) ^^ tget T3_t (byte1 t2) ^^ tget T4_t (byte0 t3) ^^ k0)
       (tget T1_t (byte3 t1) ^^ tget T2_t (byte2 t2) ^^ tget T3_t (byte1 t3) ^^ tget T4_t (byte0 t0) ^^ k1)
       (tget T1_t (byte3 t2) ^^ tget T2_t (byte2 t3) ^^ tget T3_t (byte1 t0) ^^ tget T4_t (byte0 t1) ^^ k2)
       (tget T1_t (byte3 t3) ^^ tget T2_t (byte2 t0) ^^ tget T3_t (byte1 t1) ^^ tget T4_t (byte0 t2) ^^ k3)
  end.
(* a[i] = T5[(t[i]>>24)&0xFF] ^ T6[(t[(i+3)%4]>>16)&0xFF] ^ T7[(t[(i+2)%4]>>8)&0xFF] ^ T8[t[(i+1)%4]&0xFF] ^ Kd[r][i] *)
Definition dec_round (t k : w4) : w4 :=
  match t, k with
  | W4 t0 t1 t2 t3, W4 k0 k1 k2 k3 =>
    W4 (tget T5_t (byte3 t0) ^^ tget T6_t (byte2 t3) ^^ tget T7_t (byte1 t2) ^^ tget T8_t (byte0 t1) ^^ k0)
       (tget T5_t (byte3 t1) ^^ tget T6_t (byte2 t0) ^^ tget T7_t (byte1 t3) ^^ tget T8_t (byte0 t2) ^^ k1)
       (tget T5_t (byte3 t2) ^^ tget T6_t (byte2 t1) ^^ tget T7_t (byte1 t0) ^^ tget T8_t (byte0 t3) ^^ k2)
       (tget T5_t (byte3 t3) ^^ tget T6_t (byte2 t2) ^^ tget T7_t (byte1 t1) ^^ tget T8_t (byte0 t0) ^^ k3)
  end.

(* (S[(t[i]>>24)&0xFF] ^ (tt>>24)) & 0xFF, (S[(t[(i+s1)%4]>>16)&0xFF] ^ (tt>>16)) & 0xFF, ... *)
Definition out4 (sb : trie) (ta tb tc td tt : N) : bytes :=
  [ n2b (N.land (tget sb (byte3 ta) ^^ N.shiftr tt 24) 255);
    n2b (N.land (tget sb (byte2 tb) ^^ N.shiftr tt 16) 255);
    n2b (N.land (tget sb (byte1 tc) ^^ N.shiftr tt 8) 255);
    n2b (N.land (tget sb (byte0 td) ^^ tt) 255) ].
Definition enc_final (t k : w4) : bytes :=
  match t, k with
  | W4 t0 t1 t2 t3, W4 k0 k1 k2 k3 =>
    out4 S_t t0 t1 t2 t3 k0 ++ out4 S_t t1 t2 t3 t0 k1 ++ out4 S_t t2 t3 t0 t1 k2 ++ out4 S_t t3 t0 t1 t2 k3
  end.
Definition dec_final (t k : w4) : bytes :=
  match t, k with
  | W4 t0 t1 t2 t3, W4 k0 k1 k2 k3 =>
    out4 Si_t t0 t3 t2 t1 k0 ++ out4 Si_t t1 t0 t3 t2 k1 ++ out4 Si_t t2 t1 t0 t3 k2 ++ out4 Si_t t3 t2 t1 t0 k3
  end.

(* for r in range(1, rounds): ...; then the last round with K[rounds]; [ks] = K[1..rounds] *)
Fixpoint rounds_loop (round : w4 -> w4 -> w4) (final : w4 -> w4 -> bytes) (t : w4) (ks : list w4) : bytes :=
  match ks with
  | [] => []                      (* no round key: cannot happen, rounds >= 10 *)
  | [kl] => final t kl
  | k :: ks' => rounds_loop round final (round t k) ks'
  end.

Definition encrypt_rk (ke : list w4) (b : bytes) : bytes :=
  match ke with
  | [] => []
  | k0 :: ks => rounds_loop enc_round enc_final (xor_w4 (block_words b) k0) ks
  end.
Definition decrypt_rk (kd : list w4) (b : bytes) : bytes :=
  match kd with
  | [] => []
  | k0 :: ks => rounds_loop dec_round dec_final (xor_w4 (block_words b) k0) ks
  end.

Definition aes_key_ok (k : bytes) : bool :=
  let n := blen k in (n =? 16) || (n =? 24) || (n =? 32).

(* AES(key).encrypt(block) / .decrypt(block) with both ValueErrors *)
Definition aes_encrypt_block (key b : bytes) : result bytes :=
  if negb (aes_key_ok key) then Err EValue
  else if negb (blen b =? 16) then Err EValue
  else Ok (encrypt_rk (expand_Ke key) b).
Definition aes_decrypt_block (key b : bytes) : result bytes :=
  if negb (aes_key_ok key) then Err EValue
  else if negb (blen b =? 16) then Err EValue
  else Ok (decrypt_rk (expand_Kd key) b).

(* total block functions with the interface of Model/Cbc.v; where Python raises
   (key not 16/24/32 bytes, block not 16 bytes) the argument is returned unchanged,
   which keeps  aes_D k (aes_E k b) = b  and  length (aes_E k b) = length b  true
   without side conditions. *)
Definition aes_E (k b : bytes) : bytes :=
  match aes_encrypt_block k b with Ok c => c | Err _ => b end.
Definition aes_D (k b : bytes) : bytes :=
  match aes_decrypt_block k b with Ok c => c | Err _ => b end.
