(* C04: the MAC computations of the BF3 writer and the MAC verifications of the
   BF3 reader of Model/Bf3.v, as lists of quadruples (key, iv, message, tag).
   [macs_emitted] recomputes exactly what Bf3File.dir_to_binary computes in its
   second pass (the pass whose output is written); [mac_checks] cuts a binary
   the way dir_from_binary / from_binary cut it and lists every comparison
   "cmac(message, key, iv) == stored tag" the reader makes on it.
   No proofs in this file. *)
From Coq Require Import List Bool NArith ZArith Lia.
From Coq Require Import Init.Byte.
From Bec2 Require Import Base.Result Base.Bytes Base.Reader Gen.Consts Model.Bf3.
Import ListNotations.
Open Scope N_scope.

(* key, iv (None = the all-zero default), message, tag *)
Definition quad : Type := bytes * option bytes * bytes * bytes.

Definition verified (mac : bytes -> option bytes -> bytes -> result bytes) (q : quad) : Prop :=
  let '(k, iv, m, t) := q in mac k iv m = Ok t.

(* the authentic file itself contains two different payloads of equal length
   with the same payload MAC (payload MACs are not bound to the entry index) *)
Definition payload_collision (E : list quad) : Prop :=
  exists k m1 m2 t, In (k, None, m1, t) E /\ In (k, None, m2, t) E /\ m1 <> m2 /\ blen m1 = blen m2.

Section Cipher.
  Variable enc mac : bytes -> option bytes -> bytes -> result bytes.

  (* ---- writer: the two MACs of one directory entry (cf. ser_entry) ---------- *)
  Definition entry_macs (c : comp) (ndx adr : N) (k : bytes) : result (list quad) :=
    let* raw := raw_data enc c k in
    let* pmac := mac k None raw in
    let* a := to_bytes 4 adr in
    let* tl := to_bytes 4 (blen raw) in
    let* al := to_bytes 4 (c_alen c) in
    let* tags := ser_tags (c_desc c) in
    let* tgl := to_bytes 1 (blen tags) in
    let body := a ++ tl ++ al ++ pmac ++ tgl ++ tags in
    let* iv := to_bytes 16 (1 + ndx) in
    let* emac := mac k (Some iv) body in
    Ok [(k, Some iv, body, emac); (k, None, raw, pmac)].

  Fixpoint dir_macs (cs : list comp) (ndx adr : N) (k : bytes) : result (list quad) :=
    match cs with
    | [] => Ok []
    | c :: t =>
      let* raw := raw_data enc c k in
      let* q := entry_macs c ndx adr k in
      let* r := dir_macs t (ndx + 1) (adr + blen raw) k in
      Ok (q ++ r)
    end.

  (* second pass of to_binary: real addresses, the caller's key *)
  Definition macs_emitted (cs : list comp) (off : N) (k : bytes) : result (list quad) :=
    let* d0 := dir_to_binary enc mac cs 0 DEFAULT_SESSION_KEY in
    dir_macs cs 0 (off + blen d0) k.

  (* ---- reader ---------------------------------------------------------------- *)
  (* the directory entries as the loop of dir_from_binary cuts them *)
  Fixpoint raw_entries (fuel : nat) (dr : reader) (len : N) : result (list bytes * reader) :=
    match fuel with
    | O => Err EFuel
    | S f =>
      if len =? 0 then Ok ([], dr) else
      let* (entry, dr) := rd_read len dr in
      let* (len', dr) := rd_read_int 1 dr in
      let* (es, dr) := raw_entries f dr len' in
      Ok (entry :: es, dr)
    end.

  (* cmac(dir_entry[:-CMAC_SIZE], session_key, iv) == stored_cmac; the stored
     MAC is the last field of the entry (the entry reader must be at eof) *)
  Definition entry_check (k : bytes) (ndx : N) (entry : bytes) : quad :=
    (k, Some (be 16 ndx), takeN (blen entry - CMAC_SIZE) entry, lastN CMAC_SIZE entry).

  Fixpoint entry_checks (k : bytes) (ndx : N) (es : list bytes) : list quad :=
    match es with
    | [] => []
    | e :: t => entry_check k ndx e :: entry_checks k (ndx + 1) t
    end.

  (* cmac(payload, session_key) == payload_cmac for every component read *)
  Fixpoint payload_checks (es : list dentry) (r : reader) (k : bytes) : list quad :=
    match es with
    | [] => []
    | e :: t =>
      match rd_read (e_total e) r with
      | Ok (payload, r') => (k, None, payload, e_pmac e) :: payload_checks t r' k
      | Err _ => []
      end
    end.

  Definition mac_checks (b : bytes) (off : N) (k : bytes) : list quad :=
    match rd_read_int 4 (mkR b off) with
    | Err _ => []
    | Ok (total, r1) =>
      match rd_read total r1 with
      | Err _ => []
      | Ok (db, r2) =>
        match rd_read_int 1 (new_reader db) with
        | Err _ => []
        | Ok (len, dr) =>
          match raw_entries (S (length db)) dr len with
          | Err _ => []
          | Ok (R, _) =>
            entry_checks k 1 R ++
            match parse_dir mac (S (length db)) dr len 1 false k [] with
            | Ok (es, _) => payload_checks es r2 k
            | Err _ => []
            end
          end
        end
      end
    end.
End Cipher.
