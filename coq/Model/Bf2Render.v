(* The BF2 text grammar as parse_bf2_file (bec2format/bf3file.py) accepts it, written as a
   renderer: a BF2 file is a sequence of items

     header comment   ##<name>: <value>
     instruction      #><NAME>                      (no parameter)
                      #><NAME> <k>=<v>,<k>=<v>...   (parameter dictionary)
     data group       :0000FE00                      (start marker, tag type FE)
                      :<hex of index(2) type(1) taglen(1) tag extra>   one per data line
                      :0000FF00                      (end marker, tag type FF)

   every line terminated by the file's line ending (CRLF or LF; the last line may lack it).
   There is no third parameter form: "#>NAME word" (a plain string) is refused by the parser
   (dict() of a one-element list), see Proofs/Bf2RenderProofs.v.

   No proofs here.  tokens_of is what the parser is meant to yield for the items;
   item_okb is the executable form of the well-formedness predicate item_ok of
   Proofs/Bf2RenderProofs.v. *)
From Coq Require Import List Bool NArith ZArith.
From Coq Require Import Init.Byte.
From Bec2 Require Import Base.Result Base.Bytes Model.Bf2Str Model.Bf2Import.
Import ListNotations.
Open Scope N_scope.

Inductive item :=
| IHeader (name value : str)
| IInstr (name : str) (params : list (str * str))
| IData (ls : list line).

(* --- rendering ------------------------------------------------------------------------ *)

Definition marker_raw (ty : byte) : bytes := [x00; x00; ty; x00].
Definition data_body (raw : bytes) : str := 58 :: hex_upper raw.               (* ":" hex *)
Definition param_body (kv : str * str) : str := fst kv ++ [61] ++ snd kv.      (* k "=" v *)

(* the lines of an item, without line terminators *)
Definition item_bodies (it : item) : list str :=
  match it with
  | IHeader n v => [[35; 35] ++ n ++ [58; 32] ++ v]                            (* "##" n ": " v *)
  | IInstr n [] => [[35; 62] ++ n]                                             (* "#>" n *)
  | IInstr n ps => [[35; 62] ++ n ++ [32] ++ join [44] (map param_body ps)]    (* "#>" n " " k=v,... *)
  | IData ls => data_body (marker_raw xfe) :: map (fun l => data_body (l_raw l)) ls
                ++ [data_body (marker_raw xff)]
  end.
Definition file_bodies (items : list item) : list str := flat_map item_bodies items.

(* every line terminated by eol *)
Definition render_file (eol : str) (items : list item) : str :=
  flat_map (fun b => b ++ eol) (file_bodies items).
(* the same without terminator after the last line *)
Definition render_file_nonl (eol : str) (items : list item) : str :=
  join eol (file_bodies items).

Definition CRLF : str := [13; 10].
Definition LF : str := [10].

(* --- what the parser is meant to yield ----------------------------------------------- *)

Definition token_of (it : item) : token :=
  match it with
  | IHeader n v => Instr n (PStr v)
  | IInstr n ps => Instr n (PDict (dupdate str_eqb [] ps))     (* dict(): a repeated key keeps its
                                                                 first position and its last value *)
  | IData ls => Load ls
  end.
Definition tokens_of (items : list item) : list token := map token_of items.

Definition data_lines (items : list item) : list line :=
  flat_map (fun it => match it with IData ls => ls | _ => [] end) items.

(* --- well-formedness, executable ------------------------------------------------------ *)

Definition lacks (c : N) (s : str) : bool := forallb (fun x => negb (x =? c)) s.
Definition spaceless (s : str) : bool := forallb (fun x => negb (is_space x)) s.
Definition blank (s : str) : bool := forallb is_space s.
(* does not start / end with a white-space character *)
Definition head_ok (s : str) : bool := match s with [] => true | c :: _ => negb (is_space c) end.
Definition last_ok (s : str) : bool := head_ok (rev s).

Fixpoint bytes_prefixb (p b : bytes) : bool :=
  match p, b with
  | [], _ => true
  | x :: p', y :: b' => byte_eqb x y && bytes_prefixb p' b'
  | _ :: _, [] => false
  end.

(* the record is what its raw bytes say: rawdata = index(2) type(1) taglen(1) tag extra *)
Definition line_okb (l : line) : bool :=
  (l_ndx l <? 65536) && (l_type l <? 254) && (blen (l_tag l) <? 256) &&
  bytes_prefixb (be 2 (l_ndx l) ++ [n2b (l_type l)] ++ [n2b (blen (l_tag l))] ++ l_tag l) (l_raw l).

Definition param_okb (kv : str * str) : bool :=
  lacks 10 (fst kv) && lacks 44 (fst kv) && lacks 61 (fst kv) && head_ok (fst kv) &&
  lacks 10 (snd kv) && lacks 44 (snd kv) && lacks 61 (snd kv) && last_ok (snd kv).

Definition item_okb (it : item) : bool :=
  match it with
  | IHeader n v =>
    lacks 58 n && lacks 10 n && negb (str_eqb n s_load) &&
    lacks 58 v && lacks 10 v && head_ok v && last_ok v
  | IInstr n ps =>
    nonempty n && spaceless n && negb (str_eqb n s_load) && forallb param_okb ps
  | IData ls => nonempty ls && forallb line_okb ls
  end.

(* boolean equality for the generated case files *)
Definition toks_eqb : list token -> list token -> bool := list_eqb token_eqb.
