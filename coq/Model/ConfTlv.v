(* C10.  Part 1: hand model of bec2format/bf3file.py: conf_dict_to_list,
   conf_dict_to_tlv and Bf3File.set_config (MAX_TLVBLOCK_SIZE and the tag
   constants come from the translator, Gen/Consts.v).
   Part 2: SPECIFICATION written from the property text: the operations of a
   dictionary, their order, and the TLV grammar
       blob  = (len block)* 00
       block = item*
       item  = 02 kk kk | 01 kk kk (vv FF | vv ll content)* (FF | end-of-block)
   as an inductive relation and as an executable decoder.
   No proofs in this file.

   What is modelled of Python:
   * a dict is an association list ((key, value), content) in insertion order;
     "no two entries with the same (key, value)" is the dict invariant
     (NoDup (map fst d)); it is a hypothesis of the theorems, the functions
     below are total without it.
   * value = None is "delete key" (the content is then ignored), content =
     None is "delete value", otherwise "set value".
   * keys, value ids are naturals (N).  bytes([..]) raises ValueError for an
     item above 255: key > 0xFFFF, value id > 255, content longer than 255.
     Negative or non-integer keys/values are NOT modelled.
   * list.sort() on the tuples (key, value, content): ints compare as ints;
     comparing None with an int raises TypeError.  A comparison sort has to
     compare two elements that are adjacent in the result, so sorting the
     delete list raises TypeError exactly when it holds a delete-key entry
     (k, None, _) and a delete-value entry (k, v, None) with the same k;
     otherwise the order is by (key, value) and the content is never compared
     (it would be only for two entries with equal (key, value), which a dict
     cannot hold). *)
From Coq Require Import List Bool NArith Lia.
From Coq Require Import Init.Byte.
From Bec2 Require Import Base.Result Base.Bytes Gen.Consts.
Import ListNotations.
Open Scope N_scope.

(* ------------------------------------------------------------------------ *)
(* Part 1: model                                                            *)

Definition ckey := (N * option N)%type.              (* (key, value) *)
Definition centry := (ckey * option bytes)%type.     (* ((key, value), content) *)
Definition cdict := list centry.
Definition triple := (N * option N * option bytes)%type.   (* (key, value, content) *)

Definition t_key (t : triple) : N := fst (fst t).
Definition t_val (t : triple) : option N := snd (fst t).

(* sort key: (key, value); lexicographic *)
Definition skey := (N * N)%type.
Definition skey_leb (a b : skey) : bool :=
  (fst a <? fst b) || ((fst a =? fst b) && (snd a <=? snd b)).

Section Sort.
  Context {A : Type} (f : A -> skey).
  Fixpoint insert (x : A) (l : list A) : list A :=
    match l with
    | [] => [x]
    | y :: t => if skey_leb (f x) (f y) then x :: l else y :: insert x t
    end.
  Definition isort (l : list A) : list A := fold_right insert [] l.
End Sort.

(* None only ever meets None of another key (see header), so its rank is irrelevant *)
Definition t_skey (t : triple) : skey :=
  (t_key t, match t_val t with Some v => v | None => 0 end).

Definition is_set_entry (e : centry) : bool :=
  match e with ((_, Some _), Some _) => true | _ => false end.

Definition to_triple (e : centry) : triple :=
  let '((k, v), c) := e in (k, v, c).

Definition is_none {A} (o : option A) : bool := match o with None => true | Some _ => false end.

(* the delete list holds (k, None, _) and (k, Some v, _) for one k: sort() raises TypeError *)
Definition del_conflict (l : list triple) : bool :=
  existsb (fun a => is_none (t_val a) &&
             existsb (fun b => (t_key a =? t_key b) && negb (is_none (t_val b))) l) l.

Definition conf_dict_to_list (d : cdict) : result (list triple) :=
  let conf_list := isort t_skey (map to_triple (filter is_set_entry d)) in
  let del_list := map to_triple (filter (fun e => negb (is_set_entry e)) d) in
  if del_conflict del_list then Err EType
  else Ok (isort t_skey del_list ++ conf_list).

Fixpoint mapM {A B} (f : A -> result B) (l : list A) : result (list B) :=
  match l with
  | [] => Ok []
  | x :: t => let* y := f x in let* r := mapM f t in Ok (y :: r)
  end.

(* one item of bytes([...]) *)
Definition byte_of (n : N) : result byte :=
  if n <? 256 then Ok (n2b n) else Err EValue.

(* bytes([tag, key >> 8, key & 0xFF]) *)
Definition preface (tag : byte) (key : N) : result bytes :=
  let* hi := byte_of (key / 256) in
  Ok [tag; hi; n2b (key mod 256)].

Definition part := (bytes * bytes * bytes)%type.     (* (preface, data, postface) *)

Definition part_of (t : triple) : result part :=
  let '(k, v, c) := t in
  match v with
  | None => let* p := preface x02 k in Ok (p, [], [])
  | Some v =>
    match c with
    | None =>
      let* p := preface x01 k in
      let* vb := byte_of v in
      Ok (p, [vb; xff], [xff])
    | Some c =>
      let* p := preface x01 k in
      let* vb := byte_of v in
      let* lb := byte_of (blen c) in
      Ok (p, vb :: lb :: c, [xff])
    end
  end.

(* merge loop; tlv_blocks = done ++ [cur] *)
Record mstate := mkM { m_done : list bytes; m_cur : bytes; m_pre : bytes; m_post : bytes }.

Definition m_init : mstate := mkM [] [] [] [].

Definition nonempty {A} (l : list A) : bool := match l with [] => false | _ => true end.

Definition m_step (s : mstate) (p : part) : mstate :=
  let '(pre, data, post) := p in
  if (MAX_TLVBLOCK_SIZE <? blen (m_cur s ++ m_post s ++ pre ++ data ++ post)) && nonempty (m_cur s)
  then mkM (m_done s ++ [m_cur s ++ m_post s]) (pre ++ data) pre post
  else if bytes_eqb pre (m_pre s) && bytes_eqb post (m_post s)
  then mkM (m_done s) (m_cur s ++ data) (m_pre s) (m_post s)
  else mkM (m_done s) (m_cur s ++ m_post s ++ pre ++ data) pre post.

Definition m_finish (s : mstate) : list bytes :=
  if nonempty (m_cur s) then m_done s ++ [m_cur s] else m_done s.

Definition merge_parts (ps : list part) : list bytes :=
  m_finish (fold_left m_step ps m_init).

Definition conf_dict_to_tlv (d : cdict) : result (list bytes) :=
  let* conf_list := conf_dict_to_list d in
  let* parts := mapM part_of conf_list in
  Ok (merge_parts parts).

(* --- Bf3File.set_config --------------------------------------------------- *)

Record component := mkComp {
  c_descr : list (N * bytes);      (* description dict, insertion order *)
  c_blob : bytes;
  c_actual_len : N;
  c_sess : bool                    (* encrypt_by_session_key *)
}.

Fixpoint descr_get (tag : N) (d : list (N * bytes)) : option bytes :=
  match d with
  | [] => None
  | (t, v) :: r => if t =? tag then Some v else descr_get tag r
  end.

(* comp.description.get(BF3TAG.TYPE) == bytes([BF3TYPE.CONFIGURATION]) *)
Definition is_config (c : component) : bool :=
  match descr_get BF3TAG_TYPE (c_descr c) with
  | Some v => bytes_eqb v [n2b BF3TYPE_CONFIGURATION]
  | None => false
  end.

(* try: del components[_get_config_ndx()]  except KeyError: pass *)
Fixpoint remove_first_config (cs : list component) : list component :=
  match cs with
  | [] => []
  | c :: r => if is_config c then r else c :: remove_first_config r
  end.

(* len(tlv_block).to_bytes(1, "big") + tlv_block *)
Definition frame_block (b : bytes) : result bytes :=
  let* l := to_bytes 1 (blen b) in Ok (l ++ b).

Definition config_blob (blocks : list bytes) : result bytes :=
  let* fs := mapM frame_block blocks in Ok (concat fs ++ [x00]).

Definition config_descr : result (list (N * bytes)) :=
  let* t := to_bytes 1 BF3TYPE_CONFIGURATION in
  let* e := to_bytes 1 BF3ENC_SESSIONKEY in
  let* f := to_bytes 1 BF3FMT_TLVCFG in
  let* r := to_bytes 1 1 in
  Ok [(BF3TAG_TYPE, t); (BF3TAG_ENC, e); (BF3TAG_FMT, f); (BF3TAG_REBOOT, r)].

Definition set_config (comps : list component) (d : cdict) (extra : list bytes)
  : result (list component) :=
  let comps' := remove_first_config comps in
  let* tlv := conf_dict_to_tlv d in
  let* blob := config_blob (tlv ++ extra) in
  let* descr := config_descr in
  Ok (comps' ++ [mkComp descr blob (blen blob) true]).

(* equality tests used by the correspondence *)
Definition component_eqb (a b : component) : bool :=
  list_eqb (prod_eqb N.eqb bytes_eqb) (c_descr a) (c_descr b) &&
  bytes_eqb (c_blob a) (c_blob b) && (c_actual_len a =? c_actual_len b) &&
  Bool.eqb (c_sess a) (c_sess b).

Definition triple_eqb (a b : triple) : bool :=
  (t_key a =? t_key b) && option_eqb N.eqb (t_val a) (t_val b) &&
  option_eqb bytes_eqb (snd a) (snd b).

(* ------------------------------------------------------------------------ *)
(* Part 2: specification, from the property text                            *)

Inductive op :=
| DelKey (k : N)
| DelVal (k v : N)
| SetVal (k v : N) (c : bytes).

Definition op_eqb (a b : op) : bool :=
  match a, b with
  | DelKey k, DelKey k' => k =? k'
  | DelVal k v, DelVal k' v' => (k =? k') && (v =? v')
  | SetVal k v c, SetVal k' v' c' => (k =? k') && (v =? v') && bytes_eqb c c'
  | _, _ => false
  end.

(* the operation a dictionary entry stands for *)
Definition op_of_entry (e : centry) : op :=
  match e with
  | ((k, None), _) => DelKey k
  | ((k, Some v), None) => DelVal k v
  | ((k, Some v), Some c) => SetVal k v c
  end.

Definition dict_ops (d : cdict) : list op := map op_of_entry d.

Definition is_delete (o : op) : bool :=
  match o with SetVal _ _ _ => false | _ => true end.
Definition is_assign (o : op) : bool := negb (is_delete o).

(* order: by key, then by value id (a delete-key never shares its key with
   another deletion inside the quantifier) *)
Definition op_skey (o : op) : skey :=
  match o with
  | DelKey k => (k, 0)
  | DelVal k v => (k, v)
  | SetVal k v _ => (k, v)
  end.

Definition sorted_deletes (d : cdict) : list op := isort op_skey (filter is_delete (dict_ops d)).
Definition sorted_sets (d : cdict) : list op := isort op_skey (filter is_assign (dict_ops d)).

(* bytes one entry needs when it stands alone in a block and the block is closed *)
Definition entry_size (e : centry) : N :=
  match op_of_entry e with
  | DelKey _ => 3                      (* 02 kk kk *)
  | DelVal _ _ => 6                    (* 01 kk kk vv FF FF *)
  | SetVal _ _ c => 6 + blen c         (* 01 kk kk vv ll content FF *)
  end.

(* the quantifier of the property *)
Definition entry_in_range (e : centry) : Prop :=
  let '((k, v), c) := e in
  k <= 0xFFFF /\
  match v with
  | None => True
  | Some v => v <= 0xFE /\ match c with None => True | Some c => blen c <= 254 end
  end.

(* delete-key and delete-value of one key: Python's sort raises TypeError.
   (The property's quantifier excludes more: a delete-key combined with ANY
   other entry of its key; the theorems need only this part.) *)
Definition no_del_conflict (d : cdict) : Prop :=
  forall k v c, In ((k, None), c) d -> ~ In ((k, Some v), None) d.

Definition wf_conf (d : cdict) : Prop :=
  NoDup (map fst d) /\ Forall entry_in_range d /\ no_del_conflict d.

(* --- grammar -------------------------------------------------------------- *)

Definition key_of (h l : byte) : N := b2n h * 256 + b2n l.

(* Values k b ops r: b = (vv FF | vv ll content)* (FF | end-of-block) . r *)
Inductive Values (k : N) : bytes -> list op -> bytes -> Prop :=
| V_end_block : Values k [] [] []
| V_end_ff r : Values k (xff :: r) [] r
| V_del v b ops r : v <> xff -> Values k b ops r ->
    Values k (v :: xff :: b) (DelVal k (b2n v) :: ops) r
| V_set v l c b ops r : v <> xff -> l <> xff -> blen c = b2n l -> Values k b ops r ->
    Values k (v :: l :: c ++ b) (SetVal k (b2n v) c :: ops) r.

(* Items b ops: b = item* *)
Inductive Items : bytes -> list op -> Prop :=
| I_nil : Items [] []
| I_delkey h l b ops : Items b ops ->
    Items (x02 :: h :: l :: b) (DelKey (key_of h l) :: ops)
| I_vals h l b vops r ops : Values (key_of h l) b vops r -> Items r ops ->
    Items (x01 :: h :: l :: b) (vops ++ ops).

Inductive Blocks : list bytes -> list op -> Prop :=
| B_nil : Blocks [] []
| B_cons b bl o os : Items b o -> Blocks bl os -> Blocks (b :: bl) (o ++ os).

(* --- the same grammar as an executable, strict decoder --------------------- *)

Definition is_ff (b : byte) : bool := byte_eqb b xff.

Fixpoint dec_values (fuel : nat) (k : N) (b : bytes) : result (list op * bytes) :=
  match fuel with
  | O => Err EFuel
  | S fuel =>
    match b with
    | [] => Ok ([], [])                                   (* end of block *)
    | v :: t =>
      if is_ff v then Ok ([], t) else
      match t with
      | [] => Err EValue                                  (* value id without length *)
      | l :: t' =>
        if is_ff l then
          let* (ops, r) := dec_values fuel k t' in Ok (DelVal k (b2n v) :: ops, r)
        else if blen t' <? b2n l then Err EValue          (* content cut off *)
        else
          let* (ops, r) := dec_values fuel k (dropN (b2n l) t') in
          Ok (SetVal k (b2n v) (takeN (b2n l) t') :: ops, r)
      end
    end
  end.

Fixpoint dec_items (fuel : nat) (b : bytes) : result (list op) :=
  match fuel with
  | O => Err EFuel
  | S fuel =>
    match b with
    | [] => Ok []
    | tag :: h :: l :: t =>
      if byte_eqb tag x02 then
        let* ops := dec_items fuel t in Ok (DelKey (key_of h l) :: ops)
      else if byte_eqb tag x01 then
        let* (vops, r) := dec_values (S (length t)) (key_of h l) t in
        let* ops := dec_items fuel r in Ok (vops ++ ops)
      else Err EValue
    | _ => Err EValue
    end
  end.

Definition decode_block (b : bytes) : result (list op) := dec_items (S (length b)) b.

Definition decode_blocks (bl : list bytes) : result (list op) :=
  let* l := mapM decode_block bl in Ok (concat l).

(* blob = (len block)* 00 and nothing after the 00; an empty block cannot be
   written (its length byte is the terminator) *)
Fixpoint split_blob (fuel : nat) (b : bytes) : result (list bytes) :=
  match fuel with
  | O => Err EFuel
  | S fuel =>
    match b with
    | [] => Err EValue                                    (* terminator missing *)
    | l :: t =>
      if byte_eqb l x00 then (if nonempty t then Err EValue else Ok [])
      else if blen t <? b2n l then Err EValue
      else let* r := split_blob fuel (dropN (b2n l) t) in Ok (takeN (b2n l) t :: r)
    end
  end.

Definition decode_blob_blocks (b : bytes) : result (list bytes) := split_blob (S (length b)) b.

(* what set_config has to produce *)
Definition framed (blocks : list bytes) : bytes :=
  concat (map (fun b => n2b (blen b) :: b) blocks).
