(* C17 - specification vocabulary and hand models for the elliptic-curve code of
   /repo/appnotes/register_crypto_plugin/ecdsa (ellipticcurve.py, numbertheory.py,
   ecdh.py, ecdsa.py, keys.py).

   The seven Jacobian formula functions, _naf and contains_point are NOT modelled
   here: they are generated from the source (Gen/EcFormulas.v).  This file has
   (1) the affine chord-and-tangent specification in division-free form over
       congruences mod p, and the abstract group structure used as hypothesis,
   (2) hand models, built on the generated functions, of the object-level code:
       inverse_mod, scale, x(), y(), to_affine, __eq__, __neg__, double(), __add__,
       _maybe_precompute, _mul_precompute, __mul__, mul_add, Public_key.__init__
       validation, ECDH._get_shared_secret (incl. its key / curve-consistency guards).
   No proofs here. *)
From Coq Require Import List Bool ZArith Znumtheory.
From Bec2 Require Import Base.Result Base.Modp Gen.EcFormulas Gen.Curves.
Import ListNotations.
Open Scope Z_scope.

(* ------------------------------------------------------------------------- *)
(* 1. specification *)

Definition jac := (Z * Z * Z)%type.     (* (X, Y, Z): x = X/Z^2, y = Y/Z^3 *)
Definition aff := (Z * Z)%type.
Definition pt := option aff.            (* None = point at infinity *)

(* (X,Y,Z) represents the affine point (x,y) *)
Definition repr (p : Z) (P : jac) (q : aff) : Prop :=
  let '(X, Y, Zc) := P in let '(x, y) := q in
  eqm p X (x * Zc * Zc) /\ eqm p Y (y * Zc * Zc * Zc).

(* chord: (x3,y3) is the sum of (x1,y1) and (x2,y2), x1 <> x2 *)
Definition add_rel (p : Z) (a1 a2 a3 : aff) : Prop :=
  let '(x1, y1) := a1 in let '(x2, y2) := a2 in let '(x3, y3) := a3 in
  exists l, eqm p (l * (x2 - x1)) (y2 - y1) /\
            eqm p x3 (l * l - x1 - x2) /\
            eqm p y3 (l * (x1 - x3) - y1).

(* tangent: (x3,y3) is twice (x1,y1), y1 <> 0 *)
Definition dbl_rel (p a : Z) (a1 a3 : aff) : Prop :=
  let '(x1, y1) := a1 in let '(x3, y3) := a3 in
  exists l, eqm p (2 * y1 * l) (3 * x1 * x1 + a) /\
            eqm p x3 (l * l - 2 * x1) /\
            eqm p y3 (l * (x1 - x3) - y1).

Definition on_curve (p a b : Z) (q : aff) : Prop :=
  let '(x, y) := q in eqm p (y * y) (x * x * x + a * x + b).

(* two Jacobian triples denote the same point (what PointJacobi.__eq__ tests) *)
Definition jac_eq (p : Z) (P Q : jac) : Prop :=
  let '(X1, Y1, Z1) := P in let '(X2, Y2, Z2) := Q in
  eqm p (X1 * (Z2 * Z2)) (X2 * (Z1 * Z1)) /\
  eqm p (Y1 * (Z2 * Z2) * Z2) (Y2 * (Z1 * Z1) * Z1).

(* The library encodes infinity as "Y = 0 or Z = 0" (integers). *)
Definition jrepr (p : Z) (J : jac) (P : pt) : Prop :=
  let '(X, Y, Zc) := J in
  match P with
  | None => Y = 0 \/ Zc = 0
  | Some q => ~ eqm p Zc 0 /\ repr p J q
  end.

(* The group-law hypothesis: an abelian group (inG, gadd, gneg, None) of points whose
   operation is the chord-and-tangent law and which has no point with y = 0 (odd order;
   all shipped curves have prime order n).  It is a HYPOTHESIS for the 17 shipped
   curves and is PROVED by enumeration for the small test curves (Proofs/EcSmall.v). *)
Record ec_group (p a : Z) (inG : pt -> Prop) (gadd : pt -> pt -> pt) (gneg : pt -> pt) : Prop := {
  g_prime : prime p;
  g_odd : 2 < p;
  g_inf : inG None;
  g_closed : forall P Q, inG P -> inG Q -> inG (gadd P Q);
  g_neg_closed : forall P, inG P -> inG (gneg P);
  g_no2 : forall x y, inG (Some (x, y)) -> ~ eqm p y 0;
  g_id_l : forall P, gadd None P = P;
  g_id_r : forall P, gadd P None = P;
  g_chord : forall a1 a2, inG (Some a1) -> inG (Some a2) -> ~ eqm p (fst a1) (fst a2) ->
      exists a3, gadd (Some a1) (Some a2) = Some a3 /\ add_rel p a1 a2 a3;
  g_tangent : forall a1 a2, inG (Some a1) -> inG (Some a2) ->
      eqm p (fst a1) (fst a2) -> eqm p (snd a1) (snd a2) ->
      exists a3, gadd (Some a1) (Some a2) = Some a3 /\ dbl_rel p a a1 a3;
  g_opposite : forall a1 a2, inG (Some a1) -> inG (Some a2) ->
      eqm p (fst a1) (fst a2) -> ~ eqm p (snd a1) (snd a2) ->
      gadd (Some a1) (Some a2) = None;
  g_neg_inf : gneg None = None;
  g_neg_fin : forall a1, inG (Some a1) ->
      exists a2, gneg (Some a1) = Some a2 /\ eqm p (fst a2) (fst a1) /\ eqm p (snd a2) (- snd a1);
  g_assoc : forall P Q R, inG P -> inG Q -> inG R -> gadd (gadd P Q) R = gadd P (gadd Q R);
  g_comm : forall P Q, inG P -> inG Q -> gadd P Q = gadd Q P;
  g_inv : forall P, inG P -> gadd P (gneg P) = None
}.

(* k*P in that group *)
Fixpoint nmul (gadd : pt -> pt -> pt) (n : nat) (P : pt) : pt :=
  match n with O => None | S n' => gadd (nmul gadd n' P) P end.

Definition zmul (gadd : pt -> pt -> pt) (gneg : pt -> pt) (k : Z) (P : pt) : pt :=
  match k with
  | Z0 => None
  | Zpos q => nmul gadd (Pos.to_nat q) P
  | Zneg q => gneg (nmul gadd (Pos.to_nat q) P)
  end.

(* value of a digit list, least significant first *)
Fixpoint digits_value (l : list Z) : Z :=
  match l with [] => 0 | d :: t => d + 2 * digits_value t end.

Fixpoint non_adjacent (l : list Z) : Prop :=
  match l with
  | [] => True
  | d :: t => (d = 0 \/ match t with [] => True | e :: _ => e = 0 end) /\ non_adjacent t
  end.

(* ------------------------------------------------------------------------- *)
(* 2. hand models on top of the generated formula functions *)

Definition is_inf (J : jac) : bool :=
  let '(_, Y, Zc) := J in (Y =? 0) || (Zc =? 0).

(* None = the INFINITY object *)
Definition wrap (J : jac) : option jac := if is_inf J then None else Some J.

(* numbertheory.inverse_mod(a, m) on Python >= 3.8: `0 if a == 0 else pow(a, -1, m)`;
   pow raises ValueError when a is not invertible.  Extended Euclid. *)
Fixpoint egcd_loop (fuel : nat) (lm low hm high : Z) : result (Z * Z) :=
  match fuel with
  | O => Err EFuel
  | S f =>
      if 1 <? low then
        let r := high / low in
        egcd_loop f (hm - lm * r) (high - low * r) lm low
      else Ok (lm, low)
  end.

Definition egcd_fuel (m : Z) : nat := (2 * Z.to_nat (Z.log2 m) + 4)%nat.

Definition inverse_mod (a m : Z) : result Z :=
  if a =? 0 then Ok 0
  else
    let* (lm, low) := egcd_loop (egcd_fuel m) 1 (a mod m) 0 m in
    if low =? 1 then Ok (lm mod m) else Err EValue.

(* PointJacobi.scale() *)
Definition pj_scale (p : Z) (J : jac) : result jac :=
  let '(x, y, z) := J in
  if z =? 1 then Ok J
  else
    let* z_inv := inverse_mod z p in
    let zz_inv := z_inv * z_inv mod p in
    Ok (x * zz_inv mod p, y * zz_inv * z_inv mod p, 1).

(* PointJacobi.x(), .y() *)
Definition pj_x (p : Z) (J : jac) : result Z :=
  let '(x, _, z) := J in
  if z =? 1 then Ok x
  else let* zi := inverse_mod z p in Ok (x * zi ^ 2 mod p).

Definition pj_y (p : Z) (J : jac) : result Z :=
  let '(_, y, z) := J in
  if z =? 1 then Ok y
  else let* zi := inverse_mod z p in Ok (y * zi ^ 3 mod p).

(* PointJacobi.to_affine(): None = INFINITY *)
Definition pj_to_affine (p : Z) (J : jac) : result (option aff) :=
  if is_inf J then Ok None
  else let* (x, y, _) := pj_scale p J in Ok (Some (x, y)).

(* PointJacobi.__eq__(PointJacobi) on the same curve *)
Definition pj_eqb (p : Z) (P Q : jac) : bool :=
  let '(x1, y1, z1) := P in let '(x2, y2, z2) := Q in
  let zz1 := z1 * z1 mod p in
  let zz2 := z2 * z2 mod p in
  ((x1 * zz2 - x2 * zz1) mod p =? 0) && ((y1 * zz2 * z2 - y2 * zz1 * z1) mod p =? 0).

(* PointJacobi.__neg__ *)
Definition pj_neg (J : jac) : jac := let '(x, y, z) := J in (x, - y, z).

(* PointJacobi.double(): None = INFINITY *)
Definition pj_double_pt (p a : Z) (J : jac) : option jac :=
  let '(X1, Y1, Z1) := J in
  if Y1 =? 0 then None else wrap (pj_double X1 Y1 Z1 p a).

(* PointJacobi.__add__ (both on the same curve); None = INFINITY *)
Definition pj_add_pt (p a : Z) (A B : option jac) : option jac :=
  match A with
  | None =>                                   (* INFINITY + B -> B.__radd__ -> B + INFINITY *)
      match B with
      | None => None
      | Some J2 => if is_inf J2 then None else B
      end
  | Some (X1, Y1, Z1) =>
      if is_inf (X1, Y1, Z1) then B
      else
        match B with
        | None => A
        | Some (X2, Y2, Z2) =>
            if is_inf (X2, Y2, Z2) then A
            else wrap (pj_add X1 Y1 Z1 X2 Y2 Z2 p a)
        end
  end.

(* the NAF loop of PointJacobi.__mul__ (after scale(): the base point is (X2, Y2, 1)) *)
Definition mul_naf_step (p a X2 Y2 : Z) (acc : jac) (i : Z) : jac :=
  let '(X3, Y3, Z3) := acc in
  let '(X3, Y3, Z3) := pj_double X3 Y3 Z3 p a in
  if i <? 0 then pj_add X3 Y3 Z3 X2 (- Y2) 1 p a
  else if 0 <? i then pj_add X3 Y3 Z3 X2 Y2 1 p a
  else (X3, Y3, Z3).

Definition mul_naf_loop (p a X2 Y2 : Z) (digits : list Z) : jac :=
  fold_left (mul_naf_step p a X2 Y2) (rev digits) (0, 0, 1).

(* the loop of PointJacobi._mul_precompute *)
Definition mul_table_step (p a : Z) (st : Z * jac) (e : Z * Z) : Z * jac :=
  let '(other, (X3, Y3, Z3)) := st in
  let '(X2, Y2) := e in
  if negb (other mod 2 =? 0) then
    if 2 <=? other mod 4 then ((other + 1) / 2, pj_add X3 Y3 Z3 X2 (- Y2) 1 p a)
    else ((other - 1) / 2, pj_add X3 Y3 Z3 X2 Y2 1 p a)
  else (other / 2, (X3, Y3, Z3)).

Definition mul_table_loop (p a : Z) (table : list (Z * Z)) (other : Z) : jac :=
  snd (fold_left (mul_table_step p a) table (other, (0, 0, 1))).

(* PointJacobi._maybe_precompute: [G, 2G, 4G, ...] in affine form while i < 4*order.
   `doubler.double()` returning INFINITY makes the Python code fail with AttributeError
   (INFINITY has no scale()); the model reports EType for that case, which is never
   compared (it cannot happen for a generator of odd order). *)
Fixpoint precompute_loop (fuel : nat) (p a i order : Z) (doubler : jac) (acc : list (Z * Z))
  : result (list (Z * Z)) :=
  match fuel with
  | O => Err EFuel
  | S f =>
      if i <? order then
        match pj_double_pt p a doubler with
        | None => Err EType
        | Some d =>
            let* (x, y, z) := pj_scale p d in
            precompute_loop f p a (i * 2) order (x, y, z) (acc ++ [(x, y)])
        end
      else Ok acc
  end.

Definition pj_precompute (p a ord : Z) (J : jac) : result (list (Z * Z)) :=
  if ord =? 0 then Err EAssert
  else
    let* x := pj_x p J in
    let* y := pj_y p J in
    precompute_loop (Z.to_nat (Z.log2 (ord * 4)) + 3) p a 1 (ord * 4) J [(x, y)].

(* PointJacobi.__mul__.  ord = 0 stands for order None; gen = the `generator` flag.
   None = INFINITY.  (The object is mutated by scale(); the model is of one call.) *)
Definition pj_mul (p a ord : Z) (gen : bool) (J : jac) (k : Z) : result (option jac) :=
  let '(_, Y, _) := J in
  if (Y =? 0) || (k =? 0) then Ok None
  else if k =? 1 then Ok (Some J)
  else
    let k := if ord =? 0 then k else k mod (ord * 2) in
    if gen then
      let* table := pj_precompute p a ord J in
      Ok (wrap (mul_table_loop p a table k))
    else
      let* (X2, Y2, _) := pj_scale p J in
      let* digits := naf k in
      Ok (wrap (mul_naf_loop p a X2 Y2 digits)).

(* PointJacobi.mul_add(self, self_mul, other, other_mul), other a PointJacobi.
   ord1/gen1 belong to self, ord2/gen2 to other. *)
Definition pad_left (n : nat) (l : list Z) : list Z := repeat 0 (n - length l) ++ l.

Definition mul_add_step (p a : Z) (A1 A2 mAmB pAmB mApB pApB : jac) (acc : jac) (d : Z * Z) : jac :=
  let '(X3, Y3, Z3) := acc in
  let '(X3, Y3, Z3) := pj_double X3 Y3 Z3 p a in
  let '(A, B) := d in
  let add := fun '(X, Y, Zc) => pj_add X3 Y3 Z3 X Y Zc p a in
  if A =? 0 then
    if B =? 0 then (X3, Y3, Z3)
    else if B <? 0 then add (pj_neg A2)
    else add A2
  else if A <? 0 then
    if B =? 0 then add (pj_neg A1)
    else if B <? 0 then add mAmB
    else add mApB
  else
    if B =? 0 then add A1
    else if B <? 0 then add pAmB
    else add pApB.

Definition pj_mul_add (p a : Z) (ord1 : Z) (gen1 : bool) (J1 : jac) (k1 : Z)
                      (ord2 : Z) (gen2 : bool) (J2 : jac) (k2 : Z) : result (option jac) :=
  if is_inf J2 || (k2 =? 0) then pj_mul p a ord1 gen1 J1 k1
  else if k1 =? 0 then pj_mul p a ord2 gen2 J2 k2
  else
    let separately :=
      let* r1 := pj_mul p a ord1 gen1 J1 k1 in
      let* r2 := pj_mul p a ord2 gen2 J2 k2 in
      Ok (pj_add_pt p a r1 r2) in
    let* _ := if gen1 then (if ord1 =? 0 then Err EAssert else Ok tt) else Ok tt in
    let* _ := if gen2 then (if ord2 =? 0 then Err EAssert else Ok tt) else Ok tt in
    if gen1 && gen2 then separately
    else
      let k1' := if ord1 =? 0 then k1 else k1 mod ord1 in
      let k2' := if ord1 =? 0 then k2 else k2 mod ord1 in
      let* (X1, Y1, Z1) := pj_scale p J1 in
      let* (X2, Y2, Z2) := pj_scale p J2 in
      let mAmB := pj_add X1 (- Y1) Z1 X2 (- Y2) Z2 p a in
      let pAmB := pj_add X1 Y1 Z1 X2 (- Y2) Z2 p a in
      let mApB := pj_add X1 (- Y1) Z1 X2 Y2 Z2 p a in
      let pApB := pj_add X1 Y1 Z1 X2 Y2 Z2 p a in
      if is_inf pApB then
        (* self and other have been scaled in place *)
        let* r1 := pj_mul p a ord1 gen1 (X1, Y1, Z1) k1' in
        let* r2 := pj_mul p a ord2 gen2 (X2, Y2, Z2) k2' in
        Ok (pj_add_pt p a r1 r2)
      else
        let* n1 := naf k1' in
        let* n2 := naf k2' in
        let n1 := rev n1 in
        let n2 := rev n2 in
        let len := Nat.max (length n1) (length n2) in
        let ds := combine (pad_left len n1) (pad_left len n2) in
        Ok (wrap (fold_left (mul_add_step p a (X1, Y1, Z1) (X2, Y2, Z2) mAmB pAmB mApB pApB) ds (0, 0, 1))).

(* ecdsa.Public_key.__init__(generator, point, verify): the decision, as integer logic.
   (x, y) = point.x(), point.y(); n = generator.order(); h = curve.cofactor().
   true = accepted, false = InvalidPointError. *)
Definition pubkey_valid (p a b n h : Z) (verify : bool) (x y : Z) : result bool :=
  if negb ((0 <=? x) && (x <? p)) || negb ((0 <=? y) && (y <? p)) then Ok false
  else if verify && negb (contains_point x y p a b) then Ok false
  else if n =? 0 then Ok false
  else if verify && negb (h =? 1) then
    (* n * point == INFINITY; the point is PointJacobi(curve, x, y, 1) without order *)
    let* r := pj_mul p a 0 false (x, y, 1) n in
    Ok (match r with None => true | Some J => is_inf J end)
  else Ok true.

(* ECDH._get_shared_secret: remote_public_key.pubkey.point * secret; the remote point
   comes from VerifyingKey.from_string (PointJacobi without order, not a generator).
   None = InvalidSharedSecretError. *)
Definition ecdh_shared (p a : Z) (Q : jac) (d : Z) : result (option Z) :=
  let* r := pj_mul p a 0 false Q d in
  match r with
  | None => Ok None
  | Some J => if is_inf J then Ok None else let* x := pj_x p J in Ok (Some x)
  end.

(* SigningKey.from_secret_exponent: the public point d*G in affine form
   (curve.generator * secexp, then scale()); G carries the order n and the generator flag. *)
Definition pubkey_of (p a n : Z) (G : jac) (d : Z) : result (option aff) :=
  let* r := pj_mul p a n true G d in
  match r with
  | None => Ok None
  | Some J => let* (x, y, _) := pj_scale p J in Ok (Some (x, y))
  end.

(* ------------------------------------------------------------------------- *)
(* ECDH._get_shared_secret with its guards.  The ECDH object has a curve (or None), a
   private key (its curve, the secret multiplier) and the received public key (its curve,
   the point); curves are curves.Curve objects, compared with Curve.__eq__:
   same CurveFp (p equal, a and b equal mod p) and equal generators. *)

Definition curvefp_eqb (c1 c2 : curve) : bool :=
  (c_p c1 =? c_p c2) && (c_a c1 mod c_p c1 =? c_a c2 mod c_p c1) && (c_b c1 mod c_p c1 =? c_b c2 mod c_p c1).

Definition curve_eqb (c1 c2 : curve) : bool :=
  curvefp_eqb c1 c2 &&
  (* PointJacobi.__eq__ of the generators: same CurveFp, then the cross-multiplied test *)
  pj_eqb (c_p c1) (c_Gx c1, c_Gy c1, 1) (c_Gx c2, c_Gy c2, 1).

Inductive ecdh_outcome : Set :=
| Secret (s : Z)
| NoKeyError
| InvalidCurveError
| InvalidSharedSecretError.

Definition ecdh_get_shared (cur : option curve) (priv : option (curve * Z)) (pub : option (curve * jac))
  : result ecdh_outcome :=
  match priv with
  | None => Ok NoKeyError
  | Some (cpriv, d) =>
      match pub with
      | None => Ok NoKeyError
      | Some (cpub, Q) =>
          (* private_key.curve == self.curve == remote_public_key.curve *)
          let same := match cur with
                      | None => false
                      | Some c => curve_eqb cpriv c && curve_eqb c cpub
                      end in
          if negb same then Ok InvalidCurveError
          else
            let* r := ecdh_shared (c_p cpub) (c_a cpub) Q d in
            match r with
            | None => Ok InvalidSharedSecretError
            | Some s => Ok (Secret s)
            end
      end
  end.
