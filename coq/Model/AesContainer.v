(* Model of bec2format/bec2file.py: AesEncryptorMixin (the "Crypto.EncryptBuffer"
   container), SoftwareCustKeyEncryptor and ConfigSecurityCodeEncryptor.
   The cipher (zero IV) and sha256 are Section variables. *)
From Coq Require Import List Bool NArith ZArith Lia.
From Coq Require Import Init.Byte.
From Bec2 Require Import Base.Result Base.Bytes Gen.Crc Gen.Consts.
Import ListNotations.
Open Scope N_scope.

Definition crc_of (pt : bytes) : N := crc8404B (map b2n pt) crc8404B_default_start.

Definition marker_B : byte := "B"%byte.

(* the plaintext frame built by AesEncryptorMixin.encrypt *)
Definition frame (pt : bytes) : result bytes :=
  let* crc := to_bytes 2 (crc_of pt) in
  let padlen := Z.to_N (padding_len (Z.of_N (blen pt))) in
  let* lenb := to_bytes 1 (blen pt + blen crc) in
  Ok ([marker_B] ++ lenb ++ zeros (N.to_nat padlen) ++ pt ++ crc).

(* AesEncryptorMixin.decrypt after the cipher: BytesReader over the frame,
   read(1), read(1), seek(len(ciphertext) - L), read(L - 2), read(2). *)
Definition unframe (ctlen : N) (fr : bytes) : result bytes :=
  match fr with
  | [] => Err EValue
  | m :: t =>
    if negb (byte_eqb m marker_B) then Err EBec2 else
    match t with
    | [] => Err EValue
    | lb :: _ =>
      let L := b2n lb in
      if ctlen <? L then Err EValue else          (* seek to a negative offset *)
      let r := dropN (ctlen - L) fr in
      if L <? 2 then Err EValue else              (* read(-1|-2) eats all, read(2) is short *)
      if blen r <? L - 2 then Err EValue else
      let payload := takeN (L - 2) r in
      let r2 := dropN (L - 2) r in
      if blen r2 <? 2 then Err EValue else
      if crc_of payload =? from_be (takeN 2 r2) then Ok payload else Err EBec2
    end
  end.

(* Python slice assignment  b[pos : pos+n] = v  on a bytearray, pos >= 0 *)
Definition slice_assign (b : bytes) (pos n : N) (v : bytes) : bytes :=
  takeN pos b ++ v ++ dropN (pos + n) b.

Definition py_slice (b : bytes) (pos n : N) : bytes := takeN n (dropN pos b).

Section Container.
  Variable enc dec : bytes -> bytes -> result bytes.   (* key -> data, zero IV *)
  Variable sha256 : bytes -> bytes.

  Definition wrap (k pt : bytes) : result bytes :=
    let* f := frame pt in enc k f.

  Definition unwrap (k ct : bytes) : result bytes :=
    let* f := dec k ct in unframe (blen ct) f.

  (* SoftwareCustKeyEncryptor: customer key = None | Some (key, pos);
     an empty key is falsy and behaves like None *)
  Definition ck_active (ck : option (bytes * N)) : option (bytes * N) :=
    match ck with Some ([], _) => None | x => x end.

  Definition ck_wrap (k : bytes) (ck : option (bytes * N)) (pt : bytes) : result bytes :=
    match ck_active ck with
    | None => wrap k pt
    | Some (c, p) => wrap k (slice_assign pt p CUSTOMER_KEY_SIZE c)
    end.

  Definition ck_unwrap (k : bytes) (ck : option (bytes * N)) (ct : bytes) : result bytes :=
    let* pt := unwrap k ct in
    match ck_active ck with
    | None => Ok pt
    | Some (c, p) =>
      if bytes_eqb (py_slice pt p CUSTOMER_KEY_SIZE) c
      then Ok (slice_assign pt p CUSTOMER_KEY_SIZE (zeros (N.to_nat CUSTOMER_KEY_SIZE)))
      else Err EBec2
    end.

  (* ConfigSecurityCodeEncryptor *)
  Definition csc_key (code : bytes) : bytes := takeN AES_BLOCK_SIZE (sha256 code).
  Definition csc_wrap (code pt : bytes) := wrap (csc_key code) pt.
  Definition csc_unwrap (code ct : bytes) := unwrap (csc_key code) ct.
End Container.
