(* Model of bec2format/configid.py (class ConfigId), property C12.

   Python str  = list N (code points), bytes = list byte, int = N (all integers that
   occur are non-negative: int.from_bytes(.., "big") and int() of a digit string).
   Optional[...] = option.  A configuration (ConfDict) is an association list
   (key, value) with first-match lookup; keys are pairs of naturals.

   Scope of the text model: `\d` of a str pattern matches every Unicode decimal digit
   (category Nd); below [is_digit] is the ASCII range only.  All code points <= 255
   that are decimal digits are ASCII digits, so the model of create_from_str is exact
   on every text that contains no non-ASCII decimal digit (in particular on every text
   whose code points are <= 255).  `.` (no DOTALL) matches everything except '\n' (10).

   The pattern strings, the format strings and UNKNOWN (DATA) come from the source
   (Gen/ConfigIdConsts.v).  The matcher and the printer below are written by hand for
   exactly these patterns/formats; the strings they implement are *rendered* from the
   model's own width constants ([model_pattern_numeric] ...), and
   Proofs/ConfigIdProofs.v proves them equal to the generated ones by reflexivity. *)
From Coq Require Import List Bool NArith Lia.
From Coq Require Import Init.Byte Strings.String Strings.Ascii.
From Bec2 Require Import Base.Result Base.Bytes Gen.ConfigIdConsts.
Import ListNotations.
Open Scope N_scope.

Definition str := list N.

(* a Coq string literal as code points (only used for ASCII literals of the source) *)
Definition s2l (s : string) : str := map N_of_ascii (list_ascii_of_string s).

(* ------------------------------------------------------------------------- *)
(* decimal numbers *)

Definition is_digit (c : N) : bool := (48 <=? c) && (c <=? 57).
Definition digit_val (c : N) : N := c - 48.
Definition digit_chr (d : N) : N := 48 + d.

(* int(s) for a non-empty string of digits *)
Definition parse_dec (s : str) : N := fold_left (fun acc c => acc * 10 + digit_val c) s 0.

(* the w low decimal digits of n, least significant first *)
Fixpoint digits_le (w : nat) (n : N) : list N :=
  match w with
  | O => []
  | S k => (n mod 10) :: digits_le k (n / 10)
  end.

(* number of decimal digits of n (1 for 0); fuel = number of binary digits *)
Fixpoint ndigits_fuel (f : nat) (n : N) : nat :=
  match f with
  | O => 1%nat
  | S f' => if n <? 10 then 1%nat else S (ndigits_fuel f' (n / 10))
  end.
Definition ndigits (n : N) : nat := ndigits_fuel (N.size_nat n) n.

(* "{:0w}".format(n) for n >= 0: zero padded to w characters, longer if n needs more *)
Definition fmt_dec (w : nat) (n : N) : str :=
  map digit_chr (rev (digits_le (Nat.max w (ndigits n)) n)).

(* ------------------------------------------------------------------------- *)
(* bytes.decode() : strict UTF-8 (rejects overlong forms, surrogates, > U+10FFFF,
   truncated sequences) *)

Definition is_cont (b : N) : bool := (0x80 <=? b) && (b <=? 0xBF).
Definition in_range (lo hi b : N) : bool := (lo <=? b) && (b <=? hi).

Fixpoint utf8_decode_n (b : list N) : result str :=
  match b with
  | [] => Ok []
  | b0 :: r =>
    if b0 <? 0x80 then rmap (cons b0) (utf8_decode_n r)
    else if in_range 0xC2 0xDF b0 then
      match r with
      | b1 :: r' =>
        if is_cont b1 then rmap (cons ((b0 - 0xC0) * 64 + (b1 - 0x80))) (utf8_decode_n r')
        else Err EUnicode
      | _ => Err EUnicode
      end
    else if in_range 0xE0 0xEF b0 then
      match r with
      | b1 :: b2 :: r' =>
        let lo := if b0 =? 0xE0 then 0xA0 else 0x80 in
        let hi := if b0 =? 0xED then 0x9F else 0xBF in
        if in_range lo hi b1 && is_cont b2
        then rmap (cons ((b0 - 0xE0) * 4096 + (b1 - 0x80) * 64 + (b2 - 0x80))) (utf8_decode_n r')
        else Err EUnicode
      | _ => Err EUnicode
      end
    else if in_range 0xF0 0xF4 b0 then
      match r with
      | b1 :: b2 :: b3 :: r' =>
        let lo := if b0 =? 0xF0 then 0x90 else 0x80 in
        let hi := if b0 =? 0xF4 then 0x8F else 0xBF in
        if in_range lo hi b1 && is_cont b2 && is_cont b3
        then rmap (cons ((b0 - 0xF0) * 262144 + (b1 - 0x80) * 4096 + (b2 - 0x80) * 64 + (b3 - 0x80)))
                  (utf8_decode_n r')
        else Err EUnicode
      | _ => Err EUnicode
      end
    else Err EUnicode
  end.

Definition utf8_decode (b : bytes) : result str := utf8_decode_n (map b2n b).

(* ------------------------------------------------------------------------- *)
(* the ConfigId object (fields after __init__) *)

Record config_id : Type := MkId {
  cid_customer : option N;
  cid_project : option N;
  cid_device : option N;
  cid_version : option N;
  cid_name : option str }.

(* `x if x != UNKNOWN else None` (None != UNKNOWN, so None stays None) *)
Definition norm_unknown (x : option N) : option N :=
  match x with
  | Some v => if v =? CFGID_UNKNOWN then None else Some v
  | None => None
  end.

(* ConfigId.__init__ *)
Definition mk_cid (customer project device version : option N) (name : option str) : config_id :=
  MkId (norm_unknown customer) (norm_unknown project) (norm_unknown device) version name.

Definition optN_eqb := option_eqb N.eqb.
Definition str_eqb : str -> str -> bool := list_eqb N.eqb.

(* ConfigId.__eq__ between two ConfigIds *)
Definition cid_eqb (a b : config_id) : bool :=
  optN_eqb (cid_customer a) (cid_customer b) && optN_eqb (cid_project a) (cid_project b) &&
  optN_eqb (cid_device a) (cid_device b) && optN_eqb (cid_version a) (cid_version b) &&
  option_eqb str_eqb (cid_name a) (cid_name b).

(* ------------------------------------------------------------------------- *)
(* configurations and the two factories *)

Definition conf := list ((N * N) * bytes).

Definition key_eqb (a b : N * N) : bool := (fst a =? fst b) && (snd a =? snd b).

Definition cfg_get (cfg : conf) (k : N * N) : option bytes :=
  match find (fun e => key_eqb (fst e) k) cfg with
  | Some e => Some (snd e)
  | None => None
  end.

(* config[k] *)
Definition dict_getitem (cfg : conf) (k : N * N) : result bytes :=
  match cfg_get cfg k with Some v => Ok v | None => Err EKey end.
(* config.get(k, default) *)
Definition dict_get (cfg : conf) (k : N * N) (default : bytes) : bytes :=
  match cfg_get cfg k with Some v => v | None => default end.

Definition NAMING : N := 0x620.
Definition K (sub : N) : N * N := (NAMING, sub).

(* config[k].decode() if k in config else None *)
Definition decode_name (cfg : conf) (k : N * N) : result (option str) :=
  match cfg_get cfg k with
  | Some b => let* s := utf8_decode b in Ok (Some s)
  | None => Ok None
  end.

(* `not name` *)
Definition name_falsy (n : option str) : bool :=
  match n with None => true | Some [] => true | Some (_ :: _) => false end.

Definition is_key_error (e : err) : bool := err_eqb e EKey.

Definition create_from_prj_settings (cfg : conf) : result config_id :=
  let* version := catch (let* b := dict_getitem cfg (K 0x07) in Ok (from_be b)) is_key_error EMissPrj in
  let* name := decode_name cfg (K 0x06) in
  let numeric :=
    let* cb := dict_getitem cfg (K 0x01) in
    let* pb := dict_getitem cfg (K 0x05) in
    let db := dict_get cfg (K 0x02) [x00; x00] in
    Ok (Some (from_be cb), Some (from_be pb), Some (from_be db)) in
  let* cpd :=
    match numeric with
    | Ok t => Ok t
    | Err e =>
      if is_key_error e
      then (if name_falsy name then Err EMissPrj else Ok (None, None, None))
      else Err e
    end in
  let '(c, p, d) := cpd in
  Ok (mk_cid c p d (Some version) name).

Definition create_from_dev_settings (cfg : conf) : result config_id :=
  let* version := catch (let* b := dict_getitem cfg (K 0x04) in Ok (from_be b)) is_key_error EMissDev in
  let* name := decode_name cfg (K 0x03) in
  let numeric :=
    let* cb := dict_getitem cfg (K 0x01) in
    let db := dict_get cfg (K 0x02) [x00; x00] in
    Ok (Some (from_be cb), Some (from_be db)) in
  let* cd :=
    match numeric with
    | Ok t => Ok t
    | Err e =>
      if is_key_error e
      then (if name_falsy name then Err EMissDev else Ok (None, None))
      else Err e
    end in
  let '(c, d) := cd in
  Ok (mk_cid c (Some 0) d (Some version) name).       (* project is the literal 0000 in both branches *)

(* ------------------------------------------------------------------------- *)
(* printing *)

Definition W_CUSTOMER : nat := 5.
Definition W_PROJECT : nat := 4.
Definition W_DEVICE : nat := 4.
Definition W_VERSION : nat := 2.
Definition SEP : N := 45.                                           (* '-' *)
Definition LIT_VERSION_OPEN : str := Eval cbv in s2l " (version ".  (* between name and number *)
Definition LIT_VERSION_CLOSE : N := 41.                             (* ')' *)
Definition NAME_SEP : str := [32].                                  (* " " between id and name *)
Definition LIT_NONE : str := Eval cbv in s2l "None".                (* "{}".format(None) *)

Definition is_device_settings (i : config_id) : bool :=
  match cid_device i with Some d => d =? 0 | None => false end.

Definition is_baltech_naming_scheme (i : config_id) : bool :=
  match cid_customer i with Some _ => true | None => false end.

(* "{version:02}" with version None: TypeError (NoneType.__format__ with a format spec) *)
Definition fmt_opt (w : nat) (x : option N) : result str :=
  match x with Some v => Ok (fmt_dec w v) | None => Err EType end.

(* property cfgid_str : Optional[str] *)
Definition cfgid_str (i : config_id) : result (option str) :=
  match cid_customer i with
  | None => Ok None
  | Some c =>
    let project_id := match cid_project i with None => CFGID_UNKNOWN | Some p => p end in
    let device_id := match cid_device i with None => CFGID_UNKNOWN | Some d => d end in
    let* v := fmt_opt W_VERSION (cid_version i) in
    if is_device_settings i
    then Ok (Some (fmt_dec W_CUSTOMER c ++ [SEP] ++ fmt_dec W_PROJECT project_id ++ [SEP] ++
                   repeat 48 W_DEVICE ++ [SEP] ++ v))
    else Ok (Some (fmt_dec W_CUSTOMER c ++ [SEP] ++ fmt_dec W_PROJECT project_id ++ [SEP] ++
                   fmt_dec W_DEVICE device_id ++ [SEP] ++ v))
  end.

(* __str__ *)
Definition cid_str (i : config_id) : result str :=
  if is_baltech_naming_scheme i then
    let* o := cfgid_str i in
    match o with
    | Some s => Ok (s ++ (if name_falsy (cid_name i) then []
                          else NAME_SEP ++ match cid_name i with Some n => n | None => [] end))
    | None => Err EType            (* unreachable: None + str *)
    end
  else
    let name := match cid_name i with Some n => n | None => LIT_NONE end in
    let* v := fmt_opt W_VERSION (cid_version i) in
    Ok (name ++ LIT_VERSION_OPEN ++ v ++ [LIT_VERSION_CLOSE]).

(* ------------------------------------------------------------------------- *)
(* create_from_str: matcher for exactly the two patterns of the source *)

Definition obind {A B} (o : option A) (f : A -> option B) : option B :=
  match o with Some a => f a | None => None end.

(* \d{k} at the start of t: (matched digits, rest) *)
Fixpoint take_digits (k : nat) (t : str) : option (str * str) :=
  match k with
  | O => Some ([], t)
  | S k' =>
    match t with
    | c :: t' =>
      if is_digit c
      then match take_digits k' t' with Some (ds, r) => Some (c :: ds, r) | None => None end
      else None
    | [] => None
    end
  end.

(* a literal character / string at the start of t *)
Definition expect (c : N) (t : str) : option str :=
  match t with x :: t' => if x =? c then Some t' else None | [] => None end.
Fixpoint expect_lit (l : str) (t : str) : option str :=
  match l with
  | [] => Some t
  | c :: l' => obind (expect c t) (expect_lit l')
  end.

(* greedy dot-star at the start of t: everything up to the first '\n' *)
Fixpoint first_line (t : str) : str :=
  match t with
  | [] => []
  | c :: t' => if c =? 10 then [] else c :: first_line t'
  end.

(* (\d{5})-(\d{4})-(\d{4})-(\d{2})  at the start of t: the four numbers (as digit strings) and the rest *)
Definition match_id (t : str) : option (str * str * str * str * str) :=
  obind (take_digits W_CUSTOMER t) (fun '(c, t) =>
  obind (expect SEP t) (fun t =>
  obind (take_digits W_PROJECT t) (fun '(p, t) =>
  obind (expect SEP t) (fun t =>
  obind (take_digits W_DEVICE t) (fun '(d, t) =>
  obind (expect SEP t) (fun t =>
  obind (take_digits W_VERSION t) (fun '(v, t) =>
  Some (c, p, d, v, t)))))))).

(* the optional sixth group (space, then dot-star): None when no space follows *)
Definition opt_name (t : str) : option str :=
  match t with
  | c :: t' => if c =? 32 then Some (first_line t') else None
  | [] => None
  end.

(* re.match(pattern 1, t): groups 1,2,3,4 converted with int(), group 6 *)
Definition match_numeric (t : str) : option (N * N * N * N * option str) :=
  obind (match_id t) (fun '(c, p, d, v, rest) =>
  Some (parse_dec c, parse_dec p, parse_dec d, parse_dec v, opt_name rest)).

(* ` \(version (\d{2})\)` at the start of t: the number *)
Definition match_version_here (t : str) : option N :=
  obind (expect_lit LIT_VERSION_OPEN t) (fun t =>
  obind (take_digits W_VERSION t) (fun '(v, t) =>
  obind (expect LIT_VERSION_CLOSE t) (fun _ => Some (parse_dec v)))).

(* re.match(pattern 2, t): greedy dot-star group, then backtracking = the LAST position of the first
   line at which ` (version dd)` matches; returns (group 1, int(group 2)) *)
Fixpoint match_nameonly (t : str) : option (str * N) :=
  match t with
  | [] => None
  | c :: t' =>
    if c =? 10 then None
    else match match_nameonly t' with
         | Some (nm, v) => Some (c :: nm, v)
         | None => match match_version_here t with Some v => Some ([], v) | None => None end
         end
  end.

Definition create_from_str (t : str) : result config_id :=
  match match_numeric t with
  | Some (c, p, d, v, nm) => Ok (mk_cid (Some c) (Some p) (Some d) (Some v) nm)
  | None =>
    match match_nameonly t with
    | Some (nm, v) => Ok (mk_cid None None None (Some v) (Some nm))
    | None => Err ECfgId
    end
  end.

(* ------------------------------------------------------------------------- *)
(* the pattern / format strings this model implements, rendered from its constants
   (compared with the generated source strings in Proofs/ConfigIdProofs.v) *)

Definition dec_lit (w : nat) : str := fmt_dec 0 (N.of_nat w).
Definition re_digits_group (w : nat) : str := s2l "(\d{" ++ dec_lit w ++ s2l "})".
(* regex escape of a literal: parentheses are the only metacharacters that occur *)
Definition re_escape (l : str) : str :=
  flat_map (fun c => if (c =? 40) || (c =? 41) then [92; c] else [c]) l.

Definition model_pattern_numeric : str :=
  re_digits_group W_CUSTOMER ++ [SEP] ++ re_digits_group W_PROJECT ++ [SEP] ++
  re_digits_group W_DEVICE ++ [SEP] ++ re_digits_group W_VERSION ++ s2l "( (.*))?".
Definition model_pattern_nameonly : str :=
  s2l "(.*)" ++ re_escape LIT_VERSION_OPEN ++ re_digits_group W_VERSION ++ re_escape [LIT_VERSION_CLOSE].

Definition fmt_field (name : string) (w : nat) : str :=
  s2l "{" ++ s2l name ++ s2l ":0" ++ dec_lit w ++ s2l "}".
Definition model_fmt_full : str :=
  fmt_field "customer" W_CUSTOMER ++ [SEP] ++ fmt_field "projectId" W_PROJECT ++ [SEP] ++
  fmt_field "device" W_DEVICE ++ [SEP] ++ fmt_field "version" W_VERSION.
Definition model_fmt_devsettings : str :=
  fmt_field "customer" W_CUSTOMER ++ [SEP] ++ fmt_field "projectId" W_PROJECT ++ [SEP] ++
  repeat 48 W_DEVICE ++ [SEP] ++ fmt_field "version" W_VERSION.
Definition model_fmt_nameonly : str :=
  s2l "{name}" ++ LIT_VERSION_OPEN ++ fmt_field "version" W_VERSION ++ [LIT_VERSION_CLOSE].
(* the template string constants (those with a replacement field) of cfgid_str and of __str__, as sorted sets *)
Definition model_cfgidstr_strings : list str := [model_fmt_devsettings; model_fmt_full].
Definition model_str_strings : list str := [model_fmt_nameonly].
