(* C03 / C05: DECLARATIVE specification of the BF3 / BEC2 container layout,
   written from the property text only (it does not import the model of the
   writer or of the reader), and an executable checker for it.

     body  =  dirsize(4) | directory | payload_1 ... payload_n
     directory = { entrylen(1) entry }*  00
     entry = adr(4) total(4) actual(4) payloadMAC(16) taglistlen(1) taglist entryMAC(16)
     taglist = { id(1) len(1) value }*          (ids pairwise distinct)

   All integers big-endian.  entryMAC_i = mac k (iv = 16-byte big-endian i) over
   everything of the entry before it, i counted from 1; payloadMAC_i = mac k
   (no iv) payload_i; adr_i = absolute file offset of payload_i; payloads are
   contiguous, in directory order, start right after the directory and end
   the file; dirsize = size of the directory including the sentinel.

   The predicates take the MAC as an abstract function and a flag [auth]:
   with auth = false the two MAC clauses are dropped (the reader's
   check_cmac = False mode); every other clause stays.
   No proofs in this file. *)
From Coq Require Import List Bool NArith Lia.
From Coq Require Import Init.Byte.
From Bec2 Require Import Base.Result Base.Bytes.
Import ListNotations.
Open Scope N_scope.

Definition tag := (N * bytes)%type.            (* id, value *)

(* id(1) len(1) value, repeated *)
Inductive tag_bytes : list tag -> bytes -> Prop :=
| tb_nil : tag_bytes [] []
| tb_cons id v tags rest :
    id < 256 -> blen v < 256 -> tag_bytes tags rest ->
    tag_bytes ((id, v) :: tags) (be 1 id ++ be 1 (blen v) ++ v ++ rest).

Definition is_tag_list (tags : list tag) (b : bytes) : Prop :=
  tag_bytes tags b /\ NoDup (map fst tags).

(* the fields of one directory entry, and the same plus the payload it refers to *)
Record entry_fields := mkEF {
  ef_adr : N; ef_total : N; ef_actual : N; ef_pmac : bytes; ef_tags : list tag
}.
Record field_record := mkFR { fr_entry : entry_fields; fr_payload : bytes }.

Section Layout.
  Variable mac : bytes -> option bytes -> bytes -> result bytes.
  Variable auth : bool.

  Definition mac_is (k : bytes) (iv : option bytes) (d m : bytes) : Prop :=
    if auth then mac k iv d = Ok m else True.

  Inductive is_dir_entry (k : bytes) (idx adr total actual : N) (pmac : bytes)
                         (tags : list tag) : bytes -> Prop :=
  | dir_entry tb emac :
      adr < 2 ^ 32 -> total < 2 ^ 32 -> actual < 2 ^ 32 ->
      blen pmac = 16 ->
      is_tag_list tags tb -> blen tb < 256 ->
      idx < 2 ^ 128 -> blen emac = 16 ->
      mac_is k (Some (be 16 idx))
             (be 4 adr ++ be 4 total ++ be 4 actual ++ pmac ++ be 1 (blen tb) ++ tb) emac ->
      is_dir_entry k idx adr total actual pmac tags
        ((be 4 adr ++ be 4 total ++ be 4 actual ++ pmac ++ be 1 (blen tb) ++ tb) ++ emac).

  (* entries, each prefixed by its 1-byte length, numbered from idx *)
  Inductive is_entries (k : bytes) : N -> list entry_fields -> bytes -> Prop :=
  | ents_nil idx : is_entries k idx [] []
  | ents_cons idx f fs e rest :
      is_dir_entry k idx (ef_adr f) (ef_total f) (ef_actual f) (ef_pmac f) (ef_tags f) e ->
      blen e < 256 ->
      is_entries k (idx + 1) fs rest ->
      is_entries k idx (f :: fs) (be 1 (blen e) ++ e ++ rest).

  (* payloads laid out contiguously from absolute offset a to the end of the file *)
  Inductive payloads_at (k : bytes) : N -> list field_record -> bytes -> Prop :=
  | pl_nil a : payloads_at k a [] []
  | pl_cons a f fs rest :
      ef_adr (fr_entry f) = a ->
      ef_total (fr_entry f) = blen (fr_payload f) ->
      ef_actual (fr_entry f) <= ef_total (fr_entry f) ->
      mac_is k None (fr_payload f) (ef_pmac (fr_entry f)) ->
      payloads_at k (a + blen (fr_payload f)) fs rest ->
      payloads_at k a (f :: fs) (fr_payload f ++ rest).

  (* the body that starts at absolute file offset off (off = length of the header) *)
  Inductive is_bf3_body_gen (off : N) (k : bytes) (fs : list field_record) : bytes -> Prop :=
  | bf3_body ents pl :
      is_entries k 1 (map fr_entry fs) ents ->
      blen (ents ++ [x00]) < 2 ^ 32 ->
      payloads_at k (off + 4 + blen (ents ++ [x00])) fs pl ->
      is_bf3_body_gen off k fs (be 4 (blen (ents ++ [x00])) ++ (ents ++ [x00]) ++ pl).
End Layout.

(* well-formed and authentic / well-formed only *)
Definition is_bf3_body mac := is_bf3_body_gen mac true.
Definition is_bf3_body_noauth mac := is_bf3_body_gen mac false.

(* ---- file framing ------------------------------------------------------------ *)
Definition BF3_SIGNATURE : bytes := [x42; x46; x33; x00; x00].     (* "BF3\0\0" *)
Definition BEC2_SIGNATURE : bytes := [x42; x45; x43; x32; x00].    (* "BEC2\0" *)

(* BEC2 authentication header: tag(1) len(1) value blocks closed by 00 00 *)
Inductive is_tlv_header : list tag -> bytes -> Prop :=
| th_end : is_tlv_header [] [x00; x00]
| th_block t v bl rest :
    t < 256 -> blen v < 256 -> (t <> 0 \/ v <> []) -> is_tlv_header bl rest ->
    is_tlv_header ((t, v) :: bl) (be 1 t ++ be 1 (blen v) ++ v ++ rest).

Definition is_bf3_file mac (k : bytes) (fs : list field_record) (b : bytes) : Prop :=
  exists body, b = BF3_SIGNATURE ++ body /\ is_bf3_body mac (blen BF3_SIGNATURE) k fs body.

Definition is_bec2_file mac (blocks : list tag) (k : bytes) (fs : list field_record) (b : bytes) : Prop :=
  exists hdr body, is_tlv_header blocks hdr /\ b = BEC2_SIGNATURE ++ hdr ++ body /\
                   is_bf3_body mac (blen (BEC2_SIGNATURE ++ hdr)) k fs body.

(* serialiser and parser of the TLV header (round trip proved in LayoutProofs) *)
Fixpoint ser_tlv_header (bl : list tag) : bytes :=
  match bl with
  | [] => [x00; x00]
  | (t, v) :: r => be 1 t ++ be 1 (blen v) ++ v ++ ser_tlv_header r
  end.

Definition cut (n : N) (b : bytes) : result (bytes * bytes) :=
  if n <=? blen b then Ok (takeN n b, dropN n b) else Err EBf3.

(* returns the blocks and what follows the 00 00 terminator *)
Fixpoint parse_tlv_header (fuel : nat) (b : bytes) : result (list tag * bytes) :=
  match fuel with
  | O => Err EFuel
  | S f =>
    let* (t, b) := cut 1 b in
    let* (l, b) := cut 1 b in
    let* (v, b) := cut (from_be l) b in
    if (from_be t =? 0) && (from_be l =? 0) then Ok ([], b)
    else let* (bl, r) := parse_tlv_header f b in Ok ((from_be t, v) :: bl, r)
  end.

(* ---- hex text ------------------------------------------------------------------ *)
Definition text := list N.          (* code points *)
Definition T_NL : N := 10.
Definition T_COLON : N := 58.
Definition T_SPACE : N := 32.

(* "key: value\n" per comment, in order *)
Inductive is_comment_lines : list (text * text) -> text -> Prop :=
| cl_nil : is_comment_lines [] []
| cl_cons k v cm rest :
    is_comment_lines cm rest ->
    is_comment_lines ((k, v) :: cm) (k ++ [T_COLON; T_SPACE] ++ v ++ [T_NL] ++ rest).

(* upper-case hexadecimal digit of a value < 16 *)
Inductive hex_char : N -> N -> Prop :=
| hc_digit d : d < 10 -> hex_char d (48 + d)                 (* '0'..'9' *)
| hc_letter d : 10 <= d -> d < 16 -> hex_char d (55 + d).    (* 'A'..'F' *)

Inductive is_hex_of : bytes -> text -> Prop :=
| hx_nil : is_hex_of [] []
| hx_cons x b c1 c2 s :
    hex_char (b2n x / 16) c1 -> hex_char (b2n x mod 16) c2 -> is_hex_of b s ->
    is_hex_of (x :: b) (c1 :: c2 :: s).

(* lines of at most 40 bytes = 80 columns; every line that is followed by more
   data is full; after the last data line at most one empty line (the writer
   emits it whenever length mod 40 <> 1; the layout allows but does not demand it) *)
Inductive is_hex_lines : bytes -> text -> Prop :=
| hl_end t : t = [] \/ t = [T_NL] -> is_hex_lines [] t
| hl_line l b s t :
    l <> [] -> blen l <= 40 -> (b <> [] -> blen l = 40) ->
    is_hex_of l s -> is_hex_lines b t ->
    is_hex_lines (l ++ b) (s ++ [T_NL] ++ t).

Definition is_bf3_text (cm : list (text * text)) (binary : bytes) (t : text) : Prop :=
  exists c h, is_comment_lines cm c /\ is_hex_lines binary h /\ t = c ++ [T_NL] ++ h.

(* ---- CBC-MAC, written from the definition -------------------------------------- *)
(* chaining value after absorbing the 16-byte blocks of d: s_0 = iv,
   s_i = E k (block_i xor s_(i-1)); the MAC is the last chaining value *)
Section CbcMac.
  Variable E : bytes -> bytes -> bytes.
  Variable xor : bytes -> bytes -> bytes.
  Fixpoint chain (fuel : nat) (k st d : bytes) : bytes :=
    match fuel with
    | O => st
    | S f => match d with
             | [] => st
             | _ => chain f k (E k (xor (firstn 16 d) st)) (skipn 16 d)
             end
    end.
  Definition zero_padded (d : bytes) : bytes :=
    d ++ repeat x00 (N.to_nat ((16 - blen d mod 16) mod 16)).
  Definition cbc_mac_spec (k iv d : bytes) : bytes :=
    chain (length (zero_padded d)) k iv (zero_padded d).
End CbcMac.

(* ---- executable checker -------------------------------------------------------- *)
Fixpoint check_tags (fuel : nat) (b : bytes) : result (list tag) :=
  match b with
  | [] => Ok []
  | _ =>
    match fuel with
    | O => Err EFuel
    | S f =>
      let* (i, b) := cut 1 b in
      let* (l, b) := cut 1 b in
      let* (v, b) := cut (from_be l) b in
      let* tags := check_tags f b in
      if existsb (N.eqb (from_be i)) (map fst tags) then Err EBf3
      else Ok ((from_be i, v) :: tags)
    end
  end.

Definition is_nil {A} (l : list A) : bool := match l with [] => true | _ => false end.

Section Checker.
  Variable mac : bytes -> option bytes -> bytes -> result bytes.
  Variable auth : bool.

  Definition check_mac (k : bytes) (iv : option bytes) (d m : bytes) : result unit :=
    if auth then let* m' := mac k iv d in guard (bytes_eqb m' m) EBf3 else Ok tt.

  Definition check_entry (k : bytes) (idx : N) (e : bytes) : result entry_fields :=
    let* (a, r) := cut 4 e in
    let* (t, r) := cut 4 r in
    let* (c, r) := cut 4 r in
    let* (pm, r) := cut 16 r in
    let* (dl, r) := cut 1 r in
    let* (tb, r) := cut (from_be dl) r in
    let* (em, r) := cut 16 r in
    let* _ := guard (is_nil r) EBf3 in
    let* tags := check_tags (length tb) tb in
    let* _ := guard (idx <? 2 ^ 128) EBf3 in
    let* _ := check_mac k (Some (be 16 idx)) (a ++ t ++ c ++ pm ++ dl ++ tb) em in
    Ok (mkEF (from_be a) (from_be t) (from_be c) pm tags).

  (* returns the entries and what follows the sentinel *)
  Fixpoint check_entries (fuel : nat) (k : bytes) (idx : N) (d : bytes)
                         : result (list entry_fields * bytes) :=
    match fuel with
    | O => Err EFuel
    | S f =>
      let* (l, r) := cut 1 d in
      if from_be l =? 0 then Ok ([], r) else
      let* (e, r) := cut (from_be l) r in
      let* ef := check_entry k idx e in
      let* (efs, r) := check_entries f k (idx + 1) r in
      Ok (ef :: efs, r)
    end.

  Fixpoint check_payloads (k : bytes) (a : N) (efs : list entry_fields) (pl : bytes)
                          : result (list field_record) :=
    match efs with
    | [] => let* _ := guard (is_nil pl) EBf3 in Ok []
    | ef :: t =>
      let* _ := guard (ef_adr ef =? a) EBf3 in
      let* _ := guard (ef_actual ef <=? ef_total ef) EBf3 in
      let* (p, r) := cut (ef_total ef) pl in
      let* _ := check_mac k None p (ef_pmac ef) in
      let* fs := check_payloads k (a + ef_total ef) t r in
      Ok (mkFR ef p :: fs)
    end.

  Definition check_layout_gen (off : N) (k : bytes) (b : bytes) : result (list field_record) :=
    let* (sz, r) := cut 4 b in
    let* (dir, pl) := cut (from_be sz) r in
    let* (efs, rest) := check_entries (length dir) k 1 dir in
    let* _ := guard (is_nil rest) EBf3 in
    check_payloads k (off + 4 + from_be sz) efs pl.
End Checker.

Definition check_layout mac := check_layout_gen mac true.
Definition check_layout_noauth mac := check_layout_gen mac false.

(* decidable equality on field records, for the case files *)
Definition tag_eqb (a b : tag) : bool := (fst a =? fst b) && bytes_eqb (snd a) (snd b).
Definition ef_eqb (a b : entry_fields) : bool :=
  (ef_adr a =? ef_adr b) && (ef_total a =? ef_total b) && (ef_actual a =? ef_actual b) &&
  bytes_eqb (ef_pmac a) (ef_pmac b) && list_eqb tag_eqb (ef_tags a) (ef_tags b).
Definition fr_eqb (a b : field_record) : bool :=
  ef_eqb (fr_entry a) (fr_entry b) && bytes_eqb (fr_payload a) (fr_payload b).
