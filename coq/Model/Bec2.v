(* Hand-written executable model of bec2format/bec2file.py: encryptors, auth
   blocks (select_encryptor, pack/unpack), pack_auth_blocks/unpack_auth_blocks,
   Bec2File.to_binary / write_file / read_file.
   External functions are Section variables: the cipher triple (registered
   AES128), sha256, and the registered ECC plug-in abstracted as
     pub_of  : private key -> 64-byte raw public key,
     valid_pub : 64-byte raw public key -> bool     (plug-in's key validation),
     ecdh    : private key -> raw public key -> shared secret bytes,
     keygen  : N -> private key                     (i-th PrivateEccKey.generate()),
     rand16  : N -> bytes                           (i-th random_bytes(16)).
   No proofs in this file. *)
From Coq Require Import List Bool NArith ZArith Lia.
From Coq Require Import Init.Byte.
From Bec2 Require Import Base.Result Base.Bytes Base.Reader Gen.Consts Model.Bf3 Model.AesContainer.
Import ListNotations.
Open Scope N_scope.

Definition privkey := bytes.

Inductive encryptor :=
| ECustKey (crypto_key : bytes) (ck : option (bytes * N))     (* SoftwareCustKeyEncryptor *)
| EEcc (sel : N) (pub : bytes) (priv : option privkey)        (* EccEncryptor / EccDecryptor *)
| ECsc (code : bytes).                                        (* ConfigSecurityCodeEncryptor *)

Inductive authblock :=
| ABCustKey
| ABEcc (sel : N)
| ABUpdate (code : bytes) (version : N)
| ABUnknown (tag : N) (raw : bytes).

Definition ab_tag (a : authblock) : N :=
  match a with
  | ABCustKey => TAG_CUSTKEY
  | ABEcc _ => TAG_ECC
  | ABUpdate _ _ => TAG_UPDATE
  | ABUnknown t _ => t
  end.

(* which auth-block class accepts which encryptor class (REQUIRED_ENCRYPTOR_CLS + isinstance) *)
Inductive kind := KCust | KEcc | KCsc.
Definition enc_kind (e : encryptor) : kind :=
  match e with ECustKey _ _ => KCust | EEcc _ _ _ => KEcc | ECsc _ => KCsc end.
Definition kind_eqb (a b : kind) : bool :=
  match a, b with KCust, KCust | KEcc, KEcc | KCsc, KCsc => true | _, _ => false end.

(* AuthBlock.select_encryptor: first matching external encryptor, else the fallback, else KeyError *)
Definition select_encryptor (k : kind) (exts : list encryptor) (fallback : option encryptor)
                            (filt : encryptor -> bool) : result encryptor :=
  match find (fun e => kind_eqb (enc_kind e) k && filt e) exts with
  | Some e => Ok e
  | None => match fallback with Some e => Ok e | None => Err EKey end
  end.

Definition ecc_sel_is (sel : N) (e : encryptor) : bool :=
  match e with EEcc s _ _ => s =? sel | _ => true end.

(* the default recipient of a key selector: DER constant with the 27-byte header stripped *)
Definition default_pub (sel : N) : option bytes :=
  match find (fun p => fst p =? sel) DEFAULT_PUBLIC_KEYS with
  | Some (_, der) => Some (dropN der_header_len der)
  | None => None
  end.

Section Bec2.
  Variable enc dec mac : bytes -> option bytes -> bytes -> result bytes.
  Variable sha256 : bytes -> bytes.
  Variable pub_of : privkey -> bytes.
  Variable valid_pub : bytes -> bool.
  Variable ecdh : privkey -> bytes -> bytes.
  Variable keygen : N -> privkey.
  Variable rand16 : N -> bytes.

  Definition enc0 (k d : bytes) := enc k None d.
  Definition dec0 (k d : bytes) := dec k None d.

  Definition ecdh_key (d : privkey) (pub : bytes) : bytes :=
    takeN AES_KEY_SIZE (sha256 (ecdh d pub)).

  (* Encryptor.encrypt; nk = number of key pairs generated so far *)
  Definition e_encrypt (e : encryptor) (pt : bytes) (nk : N) : result (bytes * N) :=
    match e with
    | ECustKey k ck => let* c := ck_wrap enc0 k ck pt in Ok (c, nk)
    | ECsc code => let* c := csc_wrap enc0 sha256 code pt in Ok (c, nk)
    | EEcc _ pub _ =>
      let tmp := keygen nk in
      let* c := enc (ecdh_key tmp pub) None pt in
      Ok ([x04] ++ pub_of tmp ++ c, nk + 1)
    end.

  Definition e_decrypt (e : encryptor) (ct : bytes) : result bytes :=
    match e with
    | ECustKey k ck => ck_unwrap dec0 k ck ct
    | ECsc code => csc_unwrap dec0 sha256 code ct
    | EEcc _ _ None => Err ENotImpl
    | EEcc _ _ (Some d) =>
      let r := new_reader ct in
      let* (m, r) := rd_read 1 r in
      if negb (bytes_eqb m [x04]) then Err EValue else
      let* (tp, r) := rd_read 64 r in
      if negb (valid_pub tp) then Err EValue else
      let* (c, r) := rd_read AES_BLOCK_SIZE r in
      dec (ecdh_key d tp) None c
    end.

  Definition pack (a : authblock) (key : bytes) (exts : list encryptor) (nk : N) : result (bytes * N) :=
    match a with
    | ABCustKey =>
      let* e := select_encryptor KCust exts None (fun _ => true) in
      e_encrypt e (CUSTOMER_KEY_PLACEHOLDER ++ key) nk
    | ABEcc sel =>
      let fb := match default_pub sel with Some p => Some (EEcc sel p None) | None => None end in
      let* e := select_encryptor KEcc exts fb (ecc_sel_is sel) in
      let* s := to_bytes 1 sel in
      let* (c, nk) := e_encrypt e key nk in
      Ok (s ++ c, nk)
    | ABUpdate code ver =>
      let* e := select_encryptor KCsc exts (Some (ECsc code)) (fun _ => true) in
      let* v := to_bytes 1 ver in
      e_encrypt e (key ++ v) nk
    | ABUnknown _ raw => Ok (raw, nk)
    end.

  (* AuthBlock.unpack by tag; Err EKey is what unpack_auth_blocks turns into an unknown block *)
  Definition unpack (tag : N) (raw : bytes) (exts : list encryptor) : result (authblock * bytes) :=
    if tag =? TAG_CUSTKEY then
      let* e := select_encryptor KCust exts None (fun _ => true) in
      let* ab := e_decrypt e raw in
      Ok (ABCustKey, lastN AES_BLOCK_SIZE ab)
    else if tag =? TAG_ECC then
      match raw with
      | [] => Err EBec2
      | s :: rest =>
        let sel := b2n s in
        let* e := select_encryptor KEcc exts None (ecc_sel_is sel) in
        let* key := e_decrypt e rest in
        Ok (ABEcc sel, key)
      end
    else if tag =? TAG_UPDATE then
      let* e := select_encryptor KCsc exts None (fun _ => true) in
      let* ab := e_decrypt e raw in
      let r := new_reader ab in
      let* (key, r) := rd_read AES_BLOCK_SIZE r in
      let* (v, r) := rd_read_int 1 r in
      match e with
      | ECsc code => Ok (ABUpdate code v, key)
      | _ => Err EKey
      end
    else Err EKey.

  (* Bec2File keeps auth blocks in a dict keyed by tag *)
  Definition blocks_dict (l : list authblock) : list (N * authblock) :=
    fold_left (fun d a => dict_set N.eqb d (ab_tag a) a) l [].

  Fixpoint pack_blocks (bs : list (N * authblock)) (key : bytes) (exts : list encryptor) (nk : N)
                       : result (bytes * N) :=
    match bs with
    | [] => Ok ([x00; x00], nk)
    | (t, a) :: rest =>
      let* (raw, nk) := pack a key exts nk in
      let* tb := to_bytes 1 t in
      let* lb := to_bytes 1 (blen raw) in
      let* (r, nk) := pack_blocks rest key exts nk in
      Ok (tb ++ lb ++ raw ++ r, nk)
    end.

  Fixpoint unpack_blocks (fuel : nat) (r : reader) (exts : list encryptor)
                         (common : option bytes) (acc : list authblock)
                         : result (list authblock * option bytes * reader) :=
    match fuel with
    | O => Err EFuel
    | S f =>
      let* (t, r) := rd_read_int 1 r in
      let* (l, r) := rd_read_int 1 r in
      let* (v, r) := rd_read l r in
      if (t =? 0) && (l =? 0) then Ok (rev acc, common, r) else
      match unpack t v exts with
      | Err EKey | Err ENotImpl => unpack_blocks f r exts common (ABUnknown t v :: acc)
      | Err e => Err e
      | Ok (a, key) =>
        match common with
        | Some c => if bytes_eqb c key then unpack_blocks f r exts (Some key) (a :: acc) else Err EBec2
        | None => unpack_blocks f r exts (Some key) (a :: acc)
        end
      end
    end.

  Record bec2 := mkBec2 { b_bf3 : bf3; b_blocks : list (N * authblock); b_key : bytes }.

  (* Bec2File(bf3, blocks, session_key): a missing/empty key draws random_bytes(16); nr = draws so far *)
  Definition new_bec2 (f : bf3) (blocks : list authblock) (key : option bytes) (nr : N) : bec2 * N :=
    match key with
    | Some (x :: k) => (mkBec2 f (blocks_dict blocks) (x :: k), nr)
    | _ => (mkBec2 f (blocks_dict blocks) (rand16 nr), nr + 1)
    end.

  Definition bec2_to_binary (b : bec2) (exts : list encryptor) (nk : N) : result (bytes * N) :=
    let* (pb, nk) := pack_blocks (b_blocks b) (b_key b) exts nk in
    let header := BEC2_FILE_SIG ++ pb in
    let* body := to_binary enc mac (f_comps (b_bf3 b)) (blen header) (b_key b) in
    Ok (header ++ body, nk).

  Definition bec2_write_file (b : bec2) (exts : list encryptor) (nk : N) : result (str * N) :=
    let* (bin, nk) := bec2_to_binary b exts nk in
    Ok (write_bf3_format (f_comments (b_bf3 b)) bin, nk).

  Definition bec2_read_file (text : str) (exts : list encryptor) (check : bool) (nr : N)
                            : result (bec2 * N) :=
    let* (bin, cm) := parse_bf3_file text in
    let r := new_reader bin in
    let* (sg, r) := rd_read (blen BEC2_FILE_SIG) r in
    if negb (bytes_eqb sg BEC2_FILE_SIG) then Err EBec2 else
    let* (bl, common, r) := unpack_blocks (S (length bin)) r exts None [] in
    match common with
    | None => Err EBec2
    | Some key =>
      let* cs := from_binary dec mac r check key in
      Ok (new_bec2 (mkBf3 cm cs) bl (Some key) nr)
    end.
End Bec2.
