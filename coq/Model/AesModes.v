(* Executable model of the pyaes modes of operation, Counter, BlockFeeder /
   Encrypter / Decrypter with the three _final_* families and the PKCS7 helpers
   (/repo/appnotes/register_crypto_plugin/pyaes/{aes,blockfeeder,util}.py), and of
   what the registered adapter AES128Proxy does with them
   (/repo/appnotes/register_crypto_plugin/__init__.py).  The mutable attributes of
   the Python objects (chaining value, shift register, remaining key stream,
   counter, feeder buffer) are explicit state that every function takes and
   returns.  The block cipher is a parameter (key -> block -> block); C16
   instantiates it with Model/Aes.v. *)
From Coq Require Import List Bool NArith ZArith Lia.
From Coq Require Import Init.Byte.
From Bec2 Require Import Base.Result Base.Bytes Gen.Consts Model.Cbc.
Import ListNotations.
Open Scope N_scope.

Inductive mode : Set := ECB | CBC | CFB (segment_size : N) | OFB | CTR.
Inductive direction : Set := Enc | Dec.
Inductive padding : Set := PadDefault | PadNone | PadOther.   (* 'default', 'none', anything else *)

(* reg: CBC _last_cipherblock / CFB _shift_register / OFB _last_precipherblock /
        CTR _counter._counter;   rem: OFB _remaining_block / CTR _remaining_counter *)
Record mstate : Set := MS { m_reg : bytes; m_rem : bytes }.

(* ---- Counter ------------------------------------------------------------------- *)

(* Counter(initial_value)._counter = [(initial_value >> i) % 256 for i in range(120, -1, -8)] *)
Definition counter_init (v : N) : bytes := be 16 v.

(* increment(): from the last byte, +1; stop at the first byte that does not reach
   256; a carry out of the first byte resets everything to zero.
   [incr_lsb] works on the reversed list and returns the carry. *)
Fixpoint incr_lsb (l : bytes) : bytes * bool :=
  match l with
  | [] => ([], true)
  | x :: r =>
    if b2n x + 1 <? 256 then (n2b (b2n x + 1) :: r, false)
    else let (r', c) := incr_lsb r in (x00 :: r', c)
  end.
Definition counter_increment (c : bytes) : bytes :=
  let (r, carry) := incr_lsb (rev c) in
  if carry then zeros (length c) else rev r.

(* ---- PKCS7 helpers (util.py) ------------------------------------------------------ *)

Definition append_PKCS7_padding (d : bytes) : bytes :=
  let pad := 16 - blen d mod 16 in d ++ repeat (n2b pad) (N.to_nat pad).

Definition strip_PKCS7_padding (d : bytes) : result bytes :=
  if negb (blen d mod 16 =? 0) then Err EValue
  else match rev d with
       | [] => Err EIndex                                    (* data[-1] on empty data *)
       | lastb :: _ =>
         let pad := b2n lastb in
         if 16 <? pad then Err EValue
         else if pad =? 0 then Ok []                         (* data[:-0] is data[:0] *)
         else Ok (takeN (blen d - pad) d)
       end.

(* the reads that happen before the first empty one *)
Fixpoint until_empty (reads : list bytes) : list bytes :=
  match reads with
  | [] => []
  | [] :: _ => []
  | c :: cs => c :: until_empty cs
  end.

Section Modes.
  Variable E D : bytes -> bytes -> bytes.      (* key -> block -> block *)

  (* self._aes.encrypt / decrypt: AES raises ValueError unless the block has 16 bytes *)
  Definition blkE (k b : bytes) : result bytes := if blen b =? 16 then Ok (E k b) else Err EValue.
  Definition blkD (k b : bytes) : result bytes := if blen b =? 16 then Ok (D k b) else Err EValue.

  Definition seg_of (s : N) : N := if s =? 0 then 1 else s.   (* if segment_size == 0: segment_size = 1 *)

  (* the constructors: iv None -> 16 zero bytes, otherwise exactly 16 bytes; key of
     16/24/32 bytes (AES.__init__); CTR starts from Counter(initial_value) *)
  Definition mode_init (m : mode) (k : bytes) (iv : option bytes) (ctr : N) : result mstate :=
    match m with
    | ECB => if key_ok k then Ok (MS [] []) else Err EValue
    | CBC | OFB =>
      if negb (blen (the_iv iv) =? 16) then Err EValue
      else if key_ok k then Ok (MS (the_iv iv) []) else Err EValue
    | CFB _ =>
      (* iv is a mandatory argument of AESModeOfOperationCFB.  With iv = None the register
         becomes the *list* [0]*16 and, under Python 3, the first non-empty encrypt/decrypt
         fails with TypeError in _concat_list (list + bytes): such an object is unusable.
         The model refuses it here (tools/props/C16.py never builds one for comparison). *)
      match iv with
      | None => Err EType
      | Some v => if negb (blen v =? 16) then Err EValue
                  else if key_ok k then Ok (MS v []) else Err EValue
      end
    | CTR => if key_ok k then Ok (MS (counter_init ctr) []) else Err EValue
    end.

  (* CFB: for i in range(0, len(data), seg): one segment per iteration; [feedback_out]
     says whether the register is fed with the output (encrypt) or the input (decrypt) *)
  Fixpoint cfb_loop (fuel : nat) (feedback_out : bool) (seg : N) (k reg data acc : bytes)
    : result (bytes * bytes) :=
    match fuel with
    | O => Err EFuel
    | S f =>
      match data with
      | [] => Ok (acc, reg)
      | _ =>
        let inseg := takeN seg data in
        let* o := blkE k reg in
        let outseg := xor_bytes inseg (takeN (blen inseg) o) in
        let fed := if feedback_out then outseg else inseg in
        cfb_loop f feedback_out seg k (dropN (blen fed) reg ++ fed)
                 (dropN seg data) (acc ++ outseg)
      end
    end.

  (* OFB: for p in data: refill when the remaining block is empty, pop(0), append *)
  Fixpoint ofb_loop (k reg rem data acc : bytes) : result (bytes * bytes * bytes) :=
    match data with
    | [] => Ok (acc, reg, rem)
    | p :: data' =>
      let* (reg1, rem1) :=
         match rem with
         | [] => let* o := blkE k reg in Ok ([], o)
         | _ => Ok (reg, rem)
         end in
      match rem1 with
      | [] => Err EIndex                                      (* pop from empty list *)
      | x :: rem2 => ofb_loop k (reg1 ++ [x]) rem2 data' (acc ++ [xor_byte p x])
      end
    end.

  (* CTR: while len(rem) < len(data): rem += E(counter.value); counter.increment() *)
  Fixpoint ctr_fill (fuel : nat) (k ctr rem : bytes) (need : N) : result (bytes * bytes) :=
    match fuel with
    | O => Err EFuel
    | S f =>
      if blen rem <? need then
        let* o := blkE k ctr in ctr_fill f k (counter_increment ctr) (rem ++ o) need
      else Ok (ctr, rem)
    end.

  Definition mode_encrypt (m : mode) (k : bytes) (st : mstate) (data : bytes) : result (bytes * mstate) :=
    match m with
    | ECB => if negb (blen data =? 16) then Err EValue
             else let* c := blkE k data in Ok (c, st)
    | CBC => if negb (blen data =? 16) then Err EValue
             else let* c := blkE k (xor_bytes data (m_reg st)) in Ok (c, MS c (m_rem st))
    | CFB s => let seg := seg_of s in
               if negb (blen data mod seg =? 0) then Err EValue
               else let* (out, reg) := cfb_loop (S (length data)) true seg k (m_reg st) data [] in
                    Ok (out, MS reg (m_rem st))
    | OFB => let* (out, reg, rem) := ofb_loop k (m_reg st) (m_rem st) data [] in Ok (out, MS reg rem)
    | CTR => let* (ctr, rem) := ctr_fill (S (length data)) k (m_reg st) (m_rem st) (blen data) in
             let out := xor_bytes data rem in
             Ok (out, MS ctr (dropN (blen out) rem))
    end.

  Definition mode_decrypt (m : mode) (k : bytes) (st : mstate) (data : bytes) : result (bytes * mstate) :=
    match m with
    | ECB => if negb (blen data =? 16) then Err EValue
             else let* p := blkD k data in Ok (p, st)
    | CBC => if negb (blen data =? 16) then Err EValue
             else let* p := blkD k data in Ok (xor_bytes p (m_reg st), MS data (m_rem st))
    | CFB s => let seg := seg_of s in
               if negb (blen data mod seg =? 0) then Err EValue
               else let* (out, reg) := cfb_loop (S (length data)) false seg k (m_reg st) data [] in
                    Ok (out, MS reg (m_rem st))
    | OFB | CTR => mode_encrypt m k st data
    end.

  Definition mode_crypt (d : direction) := match d with Enc => mode_encrypt | Dec => mode_decrypt end.

  (* ---- blockfeeder.py ----------------------------------------------------------- *)

  Definition can_consume (m : mode) (size : N) : N :=
    match m with
    | ECB | CBC => if 16 <=? size then 16 else 0
    | CFB s => seg_of s * (size / seg_of s)
    | OFB | CTR => size
    end.

  Definition final_encrypt (m : mode) (pad : padding) (k : bytes) (st : mstate) (data : bytes)
    : result (bytes * mstate) :=
    match m with
    | ECB | CBC =>
      let* data' := match pad with
                    | PadDefault => Ok (append_PKCS7_padding data)
                    | PadNone => if negb (blen data =? 16) then Err EBare else Ok data
                    | PadOther => Err EBare
                    end in
      if blen data' =? 32 then
        let* (c1, st1) := mode_encrypt m k st (takeN 16 data') in
        let* (c2, st2) := mode_encrypt m k st1 (dropN 16 data') in
        Ok (c1 ++ c2, st2)
      else mode_encrypt m k st data'
    | CFB s =>
      match pad with
      | PadDefault =>
        let seg := seg_of s in
        let padded := data ++ zeros (N.to_nat (seg - blen data mod seg)) in
        let* (c, st') := mode_encrypt m k st padded in Ok (takeN (blen data) c, st')
      | _ => Err EBare
      end
    | OFB | CTR =>
      match pad with
      | PadOther => Err EBare
      | _ => mode_encrypt m k st data
      end
    end.

  Definition final_decrypt (m : mode) (pad : padding) (k : bytes) (st : mstate) (data : bytes)
    : result (bytes * mstate) :=
    match m with
    | ECB | CBC =>
      match pad with
      | PadDefault => let* (p, st') := mode_decrypt m k st data in
                      let* r := strip_PKCS7_padding p in Ok (r, st')
      | PadNone => if negb (blen data =? 16) then Err EBare else mode_decrypt m k st data
      | PadOther => Err EBare
      end
    | CFB s =>
      match pad with
      | PadDefault =>
        let seg := seg_of s in
        let padded := data ++ zeros (N.to_nat (seg - blen data mod seg)) in
        let* (p, st') := mode_decrypt m k st padded in Ok (takeN (blen data) p, st')
      | _ => Err EBare
      end
    | OFB | CTR =>
      match pad with
      | PadOther => Err EBare
      | _ => mode_decrypt m k st data
      end
    end.

  Definition final_crypt (d : direction) := match d with Enc => final_encrypt | Dec => final_decrypt end.

  (* feeder object: the mode object's state and self._buffer (None once finished) *)
  Record feeder : Set := FD { f_st : mstate; f_buf : option bytes }.
  Definition feeder_new (st : mstate) : feeder := FD st (Some []).

  (* while len(self._buffer) > 16: can_consume = ...; if can_consume == 0: break; ... *)
  Fixpoint drain (fuel : nat) (m : mode) (d : direction) (k : bytes) (st : mstate) (buf out : bytes)
    : result (bytes * mstate * bytes) :=
    match fuel with
    | O => Err EFuel
    | S f =>
      if 16 <? blen buf then
        let c := can_consume m (blen buf - 16) in
        if c =? 0 then Ok (out, st, buf)
        else let* (o, st') := mode_crypt d m k st (takeN c buf) in
             drain f m d k st' (dropN c buf) (out ++ o)
      else Ok (out, st, buf)
    end.

  (* BlockFeeder.feed(data): data = None finalises *)
  Definition feed (m : mode) (d : direction) (pad : padding) (k : bytes) (fo : feeder) (data : option bytes)
    : result (bytes * feeder) :=
    match f_buf fo with
    | None => Err EValue                                    (* already finished feeder *)
    | Some buf =>
      match data with
      | None => let* (r, st') := final_crypt d m pad k (f_st fo) buf in Ok (r, FD st' None)
      | Some x =>
        let buf' := buf ++ x in
        let* (out, st', rest) := drain (S (length buf')) m d k (f_st fo) buf' [] in
        Ok (out, FD st' (Some rest))
      end
    end.

  (* feed every chunk, then feed(None); the concatenation of everything returned *)
  Fixpoint feed_all (m : mode) (d : direction) (pad : padding) (k : bytes) (fo : feeder) (chunks : list bytes)
    : result bytes :=
    match chunks with
    | [] => let* (r, _) := feed m d pad k fo None in Ok r
    | c :: cs => let* (o, fo') := feed m d pad k fo (Some c) in
                 let* r := feed_all m d pad k fo' cs in Ok (o ++ r)
    end.

  (* Encrypter(Mode(key, iv / Counter(ctr)), padding) fed with the chunks and finalised *)
  Definition stream_crypt (m : mode) (d : direction) (pad : padding) (k : bytes) (iv : option bytes) (ctr : N)
             (chunks : list bytes) : result bytes :=
    let* st := mode_init m k iv ctr in
    feed_all m d pad k (feeder_new st) chunks.

  (* ---- _feed_stream / encrypt_stream / decrypt_stream -------------------------------------
     The input stream is the list of what successive in_stream.read(block_size) calls return
     (each at most block_size bytes; that bound plays no role in the code).  The loop feeds
     every chunk and stops at the first empty read - an exhausted list reads as empty - and
     then flushes with feed(); what is written to out_stream is the concatenation. *)
  Fixpoint feed_stream (m : mode) (d : direction) (pad : padding) (k : bytes) (fo : feeder) (reads : list bytes)
    : result bytes :=
    match reads with
    | [] => let* (r, _) := feed m d pad k fo None in Ok r
    | c :: cs =>
      match c with
      | [] => let* (r, _) := feed m d pad k fo None in Ok r         (* if not chunk: break *)
      | _ => let* (o, fo') := feed m d pad k fo (Some c) in
             let* r := feed_stream m d pad k fo' cs in Ok (o ++ r)
      end
    end.

  (* encrypt_stream(Mode(key, iv / Counter(ctr)), in_stream, out_stream, block_size, padding)
     (d = Enc) and decrypt_stream (d = Dec) *)
  Definition crypt_stream (m : mode) (d : direction) (pad : padding) (k : bytes) (iv : option bytes) (ctr : N)
             (reads : list bytes) : result bytes :=
    let* st := mode_init m k iv ctr in
    feed_stream m d pad k (feeder_new st) reads.

  (* ---- AES128Proxy (register_crypto_plugin/__init__.py) ---------------------------- *)

  Definition proxy_encrypt (k : bytes) (iv : option bytes) (data : bytes) : result bytes :=
    match data with
    | [] => Ok []
    | _ =>
      let* st := mode_init CBC k iv 0 in
      let pad_length := (16 - blen data mod 16) mod 16 in        (* -len(data) % 16 *)
      let* (c1, fo1) := feed CBC Enc PadNone k (feeder_new st) (Some (data ++ zeros (N.to_nat pad_length))) in
      let* (c2, _) := feed CBC Enc PadNone k fo1 None in
      Ok (c1 ++ c2)
    end.

  Definition proxy_decrypt (k : bytes) (iv : option bytes) (data : bytes) : result bytes :=
    if negb (blen data mod 16 =? 0) then Err EValue else
    match data with
    | [] => Ok []
    | _ =>
      let* st := mode_init CBC k iv 0 in
      let* (p1, fo1) := feed CBC Dec PadNone k (feeder_new st) (Some data) in
      let* (p2, _) := feed CBC Dec PadNone k fo1 None in
      Ok (p1 ++ p2)
    end.

  Definition proxy_mac (k : bytes) (iv : option bytes) (data : bytes) : result bytes :=
    let* c := proxy_encrypt k iv data in Ok (lastN 16 c).
End Modes.

(* bec2format.crypto.pad: data + bytes([0] * pad_length), pad_length generated from the source *)
Definition crypto_pad (d : bytes) : bytes :=
  d ++ zeros (Z.to_nat (pad_length (Z.of_N (blen d)))).
