(* The registered ECC plug-in of the BEC2 layer (register_crypto_plugin.PrivateEccKeyProxy /
   PublicEccKeyProxy, curve NIST256p) expressed with the C17 models, in the shape that
   Model/Bec2.v abstracts:  pub_of : privkey -> bytes,  valid_pub : bytes -> bool,
   ecdh : privkey -> bytes -> bytes,  privkey = bytes.

   A private key is the big-endian encoding of its secret multiplier d (any length; the
   plug-in's keys are 32 bytes).  The plug-in only ever holds 1 <= d <= n-1
   (SigningKey.generate / from_der reject everything else): `scalar_ok`.  The functions are
   total.  Degenerate inputs, on which the plug-in raises:
     - a byte string whose value is 0 or >= n is read as 1 + (value - 1) mod (n - 1), i.e.
       folded into [1, n-1] (the identity on admissible scalars: scalar_of_ok); so
       pub_len / pub_valid / ecdh_comm hold for ALL byte strings, as Bec2Proofs states them;
     - p256_pub_of d   = zeros 64  only if the model fails or gives INFINITY (it does not:
                                   P256PluginProofs.pub_of_eq);
     - p256_ecdh d raw = zeros 32  if raw is not a valid public key (VerifyingKey.from_der
                                   raises) or the secret is INFINITY.
   The affine coordinates are reduced mod p before they are encoded: number_to_string raises
   unless they already are in [0, p), so this changes nothing whenever the plug-in returns.
   No proofs here. *)
From Coq Require Import List Bool NArith ZArith.
From Coq Require Import Init.Byte.
From Bec2 Require Import Base.Result Base.Bytes Base.Modp Gen.EcFormulas Gen.Curves Model.Ec.
Import ListNotations.
Open Scope Z_scope.

Definition p256_p : Z := c_p NIST256p.
Definition p256_a : Z := c_a NIST256p.
Definition p256_b : Z := c_b NIST256p.
Definition p256_n : Z := c_n NIST256p.
Definition p256_G : jac := (c_Gx NIST256p, c_Gy NIST256p, 1).

Definition scalar_raw (d : bytes) : Z := Z.of_N (from_be d).
Definition scalar_ok (d : bytes) : Prop := 1 <= scalar_raw d <= p256_n - 1.
Definition scalar_of (d : bytes) : Z := 1 + (scalar_raw d - 1) mod (p256_n - 1).

(* raw 64-byte public key X || Y *)
Definition raw_x (raw : bytes) : Z := Z.of_N (from_be (takeN 32 raw)).
Definition raw_y (raw : bytes) : Z := Z.of_N (from_be (dropN 32 raw)).
Definition raw_of (x y : Z) : bytes := be 32 (Z.to_N x) ++ be 32 (Z.to_N y).

(* PrivateEccKeyProxy(...).public_key.to_raw_bin_fmt(): d*G through the generator table *)
Definition p256_pub_of (d : bytes) : bytes :=
  match pubkey_of p256_p p256_a p256_n p256_G (scalar_of d) with
  | Ok (Some (x, y)) => raw_of (x mod p256_p) (y mod p256_p)
  | _ => zeros 64
  end.

(* PublicEccKey.create_from_raw_fmt -> VerifyingKey.from_der -> Public_key validation
   (cofactor 1: length, range, curve equation) *)
Definition p256_valid_pub (raw : bytes) : bool :=
  (blen raw =? 64)%N &&
  match pubkey_valid p256_p p256_a p256_b p256_n 1 true (raw_x raw) (raw_y raw) with
  | Ok b => b
  | Err _ => false
  end.

(* compute_dh_secret: the x-coordinate of d*Q as 32 bytes *)
Definition p256_ecdh (d raw : bytes) : bytes :=
  if p256_valid_pub raw then
    match ecdh_shared p256_p p256_a (raw_x raw, raw_y raw, 1) (scalar_of d) with
    | Ok (Some s) => be 32 (Z.to_N s)
    | _ => zeros 32
    end
  else zeros 32.
