(* C17 - the AFFINE point class `Point` of
   /repo/appnotes/register_crypto_plugin/ecdsa/ellipticcurve.py and the conversions between
   the two representations (PointJacobi.to_affine / from_affine, PointJacobi.__eq__ and
   PointJacobi.__add__ with an affine operand).

   The arithmetic of Point.__add__ (equal-x test, opposite test, chord formulas),
   Point.double (tangent formulas) and Point.__neg__ is GENERATED from the source
   (Gen/EcAffine.v: ap_add_same_x, ap_add_opposite, ap_add_den, ap_add_xy, ap_double_den,
   ap_double_xy, ap_neg_xy).  This file has the hand models built on it: the object-level
   guards (INFINITY operands), Point.__init__ (on-curve assertion and the `order`
   assertion), __eq__, the double-and-add-or-subtract loop of __mul__ with its helper
   leftmost_bit, __rmul__, and the mixed operations.  inverse_mod, contains_point,
   pj_eqb, pj_add_pt, pj_to_affine are those of Model/Ec.v / Gen/EcFormulas.v.

   Conventions.  An affine Point object is `option aff`: None is the INFINITY singleton
   (curve None), Some (x, y) a point of THE curve (p, a, b, h) the operation is applied
   on - both operands lie on the same CurveFp object, as in Model/Ec.v.  The attribute
   `order` is a separate argument where it matters (ord = 0 stands for None; 0 and None
   are both falsy in every test the code makes), h = 0 stands for cofactor None.
   Integers are unbounded and may be unreduced / negative (the class never reduces
   what the caller passes in).  AssertionError = Err EAssert, the ValueError of
   pow(x, -1, p) on a non-invertible x = Err EValue (from inverse_mod).
   Not modelled: `-INFINITY` (AttributeError: None has no p()), operands that are not
   points, Point objects built around the constructor.  No proofs here. *)
From Coq Require Import List Bool ZArith.
From Bec2 Require Import Base.Result Base.Modp Gen.EcFormulas Gen.EcAffine Model.Ec.
Import ListNotations.
Open Scope Z_scope.

Definition apt := option aff.

(* ------------------------------------------------------------------------- *)
(* Point.__init__(curve, x, y) WITHOUT order (every result of the arithmetic is built so):
   `if self.__curve: assert self.__curve.contains_point(x, y)`; a CurveFp object is
   always truthy.  The order test `curve.cofactor() != 1 and order` is false. *)
Definition ap_new (p a b : Z) (q : aff) : result aff :=
  if contains_point (fst q) (snd q) p a b then Ok q else Err EAssert.

(* Point.__eq__(Point): same curve object, then x == x and y == y on the integers;
   INFINITY (None, None, None) equals only itself. *)
Definition ap_eqb (P Q : apt) : bool :=
  match P, Q with
  | None, None => true
  | Some (x1, y1), Some (x2, y2) => (x1 =? x2) && (y1 =? y2)
  | _, _ => false
  end.

(* Point.double() *)
Definition ap_double (p a b : Z) (P : apt) : result apt :=
  match P with
  | None => Ok None                                        (* if self == INFINITY *)
  | Some (sx, sy) =>
      let* inv := inverse_mod (ap_double_den sx sy p a) p in
      let* q := ap_new p a b (ap_double_xy sx sy p a inv) in
      Ok (Some q)
  end.

(* Point.__add__(Point) *)
Definition ap_add (p a b : Z) (P Q : apt) : result apt :=
  match Q with
  | None => Ok P                                           (* if other == INFINITY: return self *)
  | Some (ox, oy) =>
      match P with
      | None => Ok Q                                       (* if self == INFINITY: return other *)
      | Some (sx, sy) =>
          if ap_add_same_x sx sy ox oy p then
            if ap_add_opposite sx sy ox oy p then Ok None
            else ap_double p a b P
          else
            let* inv := inverse_mod (ap_add_den sx sy ox oy p) p in
            let* q := ap_new p a b (ap_add_xy sx sy ox oy p inv) in
            Ok (Some q)
      end
  end.

(* Point.__neg__ of a finite point (order is dropped) *)
Definition ap_neg (p a b : Z) (q : aff) : result aff :=
  ap_new p a b (ap_neg_xy (fst q) (snd q) p).

(* ------------------------------------------------------------------------- *)
(* __mul__ *)

(* leftmost_bit(x): assert x > 0; result = 1; while result <= x: result = 2 * result;
   return result // 2 *)
Fixpoint lb_loop (fuel : nat) (r x : Z) : result Z :=
  match fuel with
  | O => Err EFuel
  | S f => if r <=? x then lb_loop f (2 * r) x else Ok (r / 2)
  end.

Definition leftmost_bit (x : Z) : result Z :=
  if 0 <? x then lb_loop (Z.to_nat (Z.log2 x) + 2) 1 x else Err EAssert.

(* the first test of __mul__: `e == 0 or (self.__order and e % self.__order == 0)` *)
Definition ap_mul_head (ord e : Z) : bool :=
  (e =? 0) || (negb (ord =? 0) && (e mod ord =? 0)).

(* the `while i > 1` loop; self and negative_self are finite points, res the accumulator *)
Fixpoint ap_mul_loop (p a b : Z) (fuel : nat) (i e3 e : Z) (self negself : aff) (res : apt)
  : result apt :=
  match fuel with
  | O => Err EFuel
  | S f =>
      if 1 <? i then
        let* r := ap_double p a b res in
        let* r := if negb (Z.land e3 i =? 0) && (Z.land e i =? 0)
                  then ap_add p a b r (Some self) else Ok r in
        let* r := if (Z.land e3 i =? 0) && negb (Z.land e i =? 0)
                  then ap_add p a b r (Some negself) else Ok r in
        ap_mul_loop p a b f (i / 2) e3 e self negself r
      else Ok res
  end.

(* Point.__init__(curve, x, y, order) as it runs for `negative_self` INSIDE __mul__:
   the on-curve assertion, then (cofactor != 1 and order truthy) `assert self * order ==
   INFINITY`, a nested __mul__ that returns INFINITY at its first test because
   order % order == 0.  The nested call is cut after that test; the branch Err EFuel is
   unreachable (Proofs/EcAffineProofs.v: ap_init_inner_eq). *)
Definition ap_init_inner (p a b h ord : Z) (q : aff) : result aff :=
  let* q := ap_new p a b q in
  if negb (h =? 1) && negb (ord =? 0) then
    if ap_mul_head ord ord then Ok q else Err EFuel
  else Ok q.

(* __mul__ for e > 0 after the head tests: e3 = 3 e, negative_self, i = leftmost_bit(e3) // 2 *)
Definition ap_mul_pos (p a b h ord : Z) (self : aff) (e : Z) : result apt :=
  let e3 := 3 * e in
  let* negself := ap_init_inner p a b h ord (fst self, - snd self) in
  let* lb := leftmost_bit e3 in
  let i := lb / 2 in
  ap_mul_loop p a b (Z.to_nat (Z.log2 e3) + 1) i e3 e self negself (Some self).

(* Point.__mul__(other) = Point.__rmul__(other); ord = self.__order *)
Definition ap_mul (p a b h ord : Z) (P : apt) (e : Z) : result apt :=
  if ap_mul_head ord e then Ok None
  else
    match P with
    | None => Ok None                                      (* if self == INFINITY *)
    | Some q =>
        if e <? 0 then
          (* (-self) * (-e): -self carries no order, -e > 0 passes the head tests *)
          let* n := ap_neg p a b q in
          ap_mul_pos p a b h 0 n (- e)
        else ap_mul_pos p a b h ord q e
    end.

(* Point.__init__(curve, x, y, order), the public constructor *)
Definition ap_init (p a b h ord : Z) (q : aff) : result aff :=
  let* q := ap_new p a b q in
  if negb (h =? 1) && negb (ord =? 0) then
    let* r := ap_mul p a b h ord (Some q) ord in
    match r with None => Ok q | Some _ => Err EAssert end
  else Ok q.

(* ------------------------------------------------------------------------- *)
(* the two representations together *)

(* PointJacobi.from_affine(point): PointJacobi(curve, x, y, 1, point.order()) *)
Definition pj_from_affine (q : aff) : jac := (fst q, snd q, 1).

(* PointJacobi.__eq__(other) for an affine operand (= Point.__eq__(PointJacobi), which
   returns NotImplemented and lets Python call the reflected method):
   `other is INFINITY` -> not y1 or not z1; otherwise the cross-multiplied test with
   (other.x(), other.y(), 1) *)
Definition pj_eq_aff (p : Z) (J : jac) (A : apt) : bool :=
  match A with
  | None => is_inf J
  | Some q => pj_eqb p J (pj_from_affine q)
  end.

(* the same for the objects __add__/__mul__ return (None = INFINITY: INFINITY == A is
   Point.__eq__) *)
Definition pj_opt_eq_aff (p : Z) (r : option jac) (A : apt) : bool :=
  match r with
  | None => ap_eqb None A
  | Some J => pj_eq_aff p J A
  end.

(* PointJacobi.__add__(Point) (= Point.__add__(PointJacobi) -> NotImplemented ->
   PointJacobi.__radd__): `if self == INFINITY: return other`, `if other == INFINITY:
   return self`, then other = PointJacobi.from_affine(other) and the Jacobian addition.
   The object returned by the first test is the affine operand itself; it is shown here as
   its from_affine image. *)
Definition pj_add_aff (p a : Z) (J : jac) (A : apt) : option jac :=
  pj_add_pt p a (Some J)
    (match A with None => None | Some q => Some (pj_from_affine q) end).

(* to_affine() of the object a PointJacobi operation returned *)
Definition pj_opt_to_affine (p : Z) (r : option jac) : result apt :=
  match r with None => Ok None | Some J => pj_to_affine p J end.

(* (from_affine(P) * k).to_affine(): from_affine hands the order over, generator = False *)
Definition ap_mul_via_jacobi (p a ord : Z) (q : aff) (k : Z) : result apt :=
  let* r := pj_mul p a ord false (pj_from_affine q) k in
  pj_opt_to_affine p r.
