(* C20 - Shared curve objects and the reader-writer lock are safe under every schedule.

   Part 1 (RWLock).  Gen/RwLock.v is regenerated from ecdsa/_rwlock.py on every
   run: each method is an instruction list (counter updates split into a load and a
   store); Model/Sched.v gives the small-step semantics (one step = one thread
   executes one instruction; acquire of a held lock is disabled).
   Part 2 (shared PointJacobi).  Gen/JacobiStores.v is the list of all mutation
   sites and all reads of the two mutable fields of class PointJacobi;
   Model/SharedPoint.v models the methods as programs over atomic loads/stores.

   Not covered by any theorem (partial): that CPython executes one attribute load /
   store atomically (GIL); `__setstate__` (unpickling into a shared object) is
   outside the schedules considered. *)
From Coq Require Import List Bool Arith NArith ZArith String.
From Bec2 Require Import Gen.RwLock Gen.JacobiStores Model.Sched Model.SharedPoint
  Proofs.SchedExploreProofs Proofs.SchedInvariant Proofs.SchedBounded Proofs.SharedPointProofs.
Import ListNotations.

(* ------------------------------------------------------------------------------ *)
(* Part 1: the lock                                                                 *)

(* ANY number of threads, each choosing reader or writer sessions freely, looping
   forever or not: in every reachable state a writer in its critical section is
   the only holder of the lock. *)
Theorem C20_mutex_unbounded : forall (loop : bool) (roles : list role) (s : state),
  reachable loop (init roles) s ->
  forall i t, nth_error (s_th s) i = Some t -> writer_in_cs t = true ->
  forall j t', nth_error (s_th s) j = Some t' -> in_cs t' = true -> j = i.
Proof. intros loop roles s H. exact (Inv_mutex s (reachable_Inv loop roles s H)). Qed.
Print Assumptions C20_mutex_unbounded.

(* ... and no thread ever releases a lock that is not held (RuntimeError in
   Python) or stores a negative counter. *)
Theorem C20_no_release_error_unbounded : forall (loop : bool) (roles : list role) (s : state),
  reachable loop (init roles) s ->
  forall i t, nth_error (s_th s) i = Some t -> exec loop (s_l s) (s_c s) t <> Fault.
Proof. intros loop roles s H. exact (Inv_no_fault loop s (reachable_Inv loop roles s H)). Qed.
Print Assumptions C20_no_release_error_unbounded.

(* several readers hold the lock together (witness traces) *)
Theorem C20_readers_share :
  exists s, reach_exec true (init [Reader; Reader]) s /\
            thread_in_cs 0 s = true /\ thread_in_cs 1 s = true.
Proof. exact readers_share_2. Qed.
Print Assumptions C20_readers_share.

Theorem C20_readers_share_3 :
  exists s, reach_exec true (init [Reader; Reader; Reader]) s /\
            thread_in_cs 0 s = true /\ thread_in_cs 1 s = true /\ thread_in_cs 2 s = true.
Proof. exact readers_share_3. Qed.
Print Assumptions C20_readers_share_3.

(* up to 2 readers + 2 writers looping forever: every reachable state has an
   enabled step (no deadlock), no thread faults, exclusion holds, and every thread
   can still reach its critical section (complete verified exploration). *)
Theorem C20_no_deadlock_2r2w : forall nr nw, nr <= 2 -> nw <= 2 -> 1 <= nr + nw ->
  forall s, reach_exec true (init (roles_of nr nw)) s ->
    (exists i s', step_thread true s i = Some s') /\
    no_fault true s = true /\ mutex_ok s = true /\
    (forall i, i < nr + nw -> exists s', reach_exec true s s' /\ thread_in_cs i s' = true).
Proof. exact no_deadlock_2r2w. Qed.
Print Assumptions C20_no_deadlock_2r2w.

(* the same with one session per thread: every state in which some thread has not
   finished has an enabled step, and all threads can still finish *)
Theorem C20_no_deadlock_2r2w_once : forall nr nw, nr <= 2 -> nw <= 2 -> 1 <= nr + nw ->
  forall s, reach_exec false (init (roles_of nr nw)) s ->
    (all_finished s = true \/ exists i s', step_thread false s i = Some s') /\
    no_fault false s = true /\ mutex_ok s = true /\
    (exists s', reach_exec false s s' /\ all_finished s' = true).
Proof. exact no_deadlock_2r2w_once. Qed.
Print Assumptions C20_no_deadlock_2r2w_once.

(* the programs the theorems above are about are not degenerate *)
Example C20_nonvacuous_lock :
  List.length (prog_of Reader) = 18 /\ List.length (prog_of Writer) = 16 /\
  cs_pc Reader = 11 /\ cs_pc Writer = 8 /\
  N.of_nat (count_states true 14 (roles_of 2 2)) = 5079%N /\
  N.of_nat (count_states false 14 (roles_of 2 2)) = 10160%N.
Proof. vm_compute. repeat split; reflexivity. Qed.
Print Assumptions C20_nonvacuous_lock.

(* ------------------------------------------------------------------------------ *)
(* Part 2: shared PointJacobi objects                                               *)

Open Scope string_scope.

(* Every place where a PointJacobi object is mutated.  After construction:
   _maybe_precompute stores a complete local list ONCE, as its last statement;
   scale stores a complete tuple ONCE, followed only by `return self`; nothing else
   stores to self (the two `order *= 2` rebind a local integer read from
   self.__order; `self = self.scale()` rebinds the local name self to the same
   object; __setstate__ is outside the schedules considered). *)
Theorem C20_store_sites : jacobi_stores =
  [ ("__init__",
     [("store", "__curve", "curve", false);
      ("store", "__coords", "(mpz(x), mpz(y), mpz(z))", false);
      ("store", "__order", "order and mpz(order)", false);
      ("store", "__coords", "(x, y, z)", false);
      ("store", "__order", "order", false);
      ("store", "__generator", "generator", false);
      ("store", "__precompute", "[]", true)]);
    ("_maybe_precompute",
     [("alias-mutate", "__order", "order *= 2", false);
      ("alias-mutate", "__order", "order *= 2", false);
      ("store", "__precompute", "precompute <- []", true)]);
    ("__setstate__",
     [("dict", "self.__dict__.update(state)", "", false)]);
    ("scale",
     [("store", "__coords", "(x, y, 1)", true)]);
    ("to_affine",
     [("call", "self", "scale", false)]);
    ("__mul__",
     [("call", "self", "_maybe_precompute", false);
      ("rebind-self", "self.scale()", "", false);
      ("call", "self", "scale", false)]);
    ("mul_add",
     [("call", "self", "_maybe_precompute", false);
      ("call", "other", "_maybe_precompute", false);
      ("call", "self", "scale", false);
      ("call", "other", "scale", false)]) ].
Proof. reflexivity. Qed.
Print Assumptions C20_store_sites.

(* Every read of the two fields: always one load of the whole value (tuple
   unpacking, truth test, iteration, or one subscript of one load). *)
Theorem C20_read_sites : jacobi_reads =
  [ ("_maybe_precompute",
     [("self", "__precompute", "if not self.__generator or self.__precompute");
      ("self", "__coords", "coord_x, coord_y, coord_z = self.__coords")]);
    ("__eq__",
     [("self", "__coords", "x1, y1, z1 = self.__coords");
      ("other", "__coords", "x2, y2, z2 = other.__coords")]);
    ("x",
     [("self", "__coords", "x, _, z = self.__coords")]);
    ("y",
     [("self", "__coords", "_, y, z = self.__coords")]);
    ("scale",
     [("self", "__coords", "x, y, z = self.__coords")]);
    ("to_affine",
     [("self", "__coords", "_, y, z = self.__coords");
      ("self", "__coords", "x, y, z = self.__coords")]);
    ("double",
     [("self", "__coords", "X1, Y1, Z1 = self.__coords")]);
    ("__add__",
     [("self", "__coords", "X1, Y1, Z1 = self.__coords");
      ("other", "__coords", "X2, Y2, Z2 = other.__coords")]);
    ("_mul_precompute",
     [("self", "__precompute", "for (X2, Y2) in self.__precompute")]);
    ("__mul__",
     [("self", "__coords", "if not self.__coords[1] or not other");
      ("self", "__precompute", "if self.__precompute");
      ("self", "__coords", "X2, Y2, _ = self.__coords")]);
    ("mul_add",
     [("self", "__precompute", "if self.__precompute and other.__precompute");
      ("other", "__precompute", "if self.__precompute and other.__precompute");
      ("self", "__coords", "X1, Y1, Z1 = self.__coords");
      ("other", "__coords", "X2, Y2, Z2 = other.__coords")]);
    ("__neg__",
     [("self", "__coords", "x, y, z = self.__coords")]) ].
Proof. reflexivity. Qed.
Print Assumptions C20_read_sites.

Close Scope string_scope.

(* Any number of threads, each running one of x(), y(), ==, scale(), to_affine(),
   _maybe_precompute(), k*P, mul_add on ONE shared object, interleaved in any way at
   the granularity of single loads and stores, started in any memory the
   operations themselves can produce: every operation that has finished has
   returned exactly what it returns when run alone on the freshly constructed
   object.  The hypotheses are the representation-independence facts of C17 for the
   constructed coordinates c0 (scaling yields Z = 1 and does not change x(), y(),
   the infinity tests, comparisons, and the table built from the coordinates). *)
Theorem C20_lazy_schedule_indep : forall (C T PT : Type) (O : @ops C T PT),
  scaled O (canon O (c0 O)) = true ->
  aff_x O (canon O (c0 O)) = aff_x O (c0 O) ->
  aff_y O (canon O (c0 O)) = aff_y O (c0 O) ->
  is_inf O (canon O (c0 O)) = is_inf O (c0 O) ->
  yzero O (canon O (c0 O)) = yzero O (c0 O) ->
  eq_other O (canon O (c0 O)) = eq_other O (c0 O) ->
  build O (canon O (c0 O)) = build O (c0 O) ->
  nonempty O (build O (c0 O)) = true ->
  forall (ps : list prog) (m : C * T),
    minv O m -> Forall (is_op O) ps ->
    forall ps' m', psteps (ps, m) (ps', m') ->
    forall i p a, nth_error ps i = Some p -> nth_error ps' i = Some (Ret a) ->
      a = fst (seq_run p (c0 O, t0 O)).
Proof. intros C T PT O. exact (lazy_schedule_indep O). Qed.
Print Assumptions C20_lazy_schedule_indep.

(* ... and the object only ever holds the constructed or the scaled coordinates,
   the initial or the complete table. *)
Theorem C20_lazy_memory_region : forall (C T PT : Type) (O : @ops C T PT),
  scaled O (canon O (c0 O)) = true ->
  aff_x O (canon O (c0 O)) = aff_x O (c0 O) ->
  aff_y O (canon O (c0 O)) = aff_y O (c0 O) ->
  is_inf O (canon O (c0 O)) = is_inf O (c0 O) ->
  yzero O (canon O (c0 O)) = yzero O (c0 O) ->
  eq_other O (canon O (c0 O)) = eq_other O (c0 O) ->
  build O (canon O (c0 O)) = build O (c0 O) ->
  nonempty O (build O (c0 O)) = true ->
  forall (ps : list prog) (m : C * T),
    minv O m -> Forall (is_op O) ps ->
    forall ps' m', psteps (ps, m) (ps', m') ->
      (fst m' = c0 O \/ fst m' = cN O) /\ (snd m' = t0 O \/ snd m' = tN O).
Proof. intros C T PT O. exact (lazy_memory_region O). Qed.
Print Assumptions C20_lazy_memory_region.

(* the hypotheses are satisfiable by an instance in which both stores really
   happen (coordinates over GF(23) with Z = 5, generator flag set, empty table) *)
Example C20_nonvacuous :
  scaled Toy.ops (canon Toy.ops (c0 Toy.ops)) = true /\
  aff_x Toy.ops (canon Toy.ops (c0 Toy.ops)) = aff_x Toy.ops (c0 Toy.ops) /\
  aff_y Toy.ops (canon Toy.ops (c0 Toy.ops)) = aff_y Toy.ops (c0 Toy.ops) /\
  is_inf Toy.ops (canon Toy.ops (c0 Toy.ops)) = is_inf Toy.ops (c0 Toy.ops) /\
  yzero Toy.ops (canon Toy.ops (c0 Toy.ops)) = yzero Toy.ops (c0 Toy.ops) /\
  eq_other Toy.ops (canon Toy.ops (c0 Toy.ops)) = eq_other Toy.ops (c0 Toy.ops) /\
  build Toy.ops (canon Toy.ops (c0 Toy.ops)) = build Toy.ops (c0 Toy.ops) /\
  nonempty Toy.ops (build Toy.ops (c0 Toy.ops)) = true /\
  scaled Toy.ops (c0 Toy.ops) = false /\ nonempty Toy.ops (t0 Toy.ops) = false /\
  canon Toy.ops (c0 Toy.ops) = (0, 1, 1)%Z /\ eq_other Toy.ops (c0 Toy.ops) = true.
Proof. exact Toy.hyps. Qed.
Print Assumptions C20_nonvacuous.
