(* C04 - Damaged or truncated files are never silently accepted as different content.

   Model: Model/Bf3.v (C01: writer, reader, text layer; strict BytesReader of Base/Reader.v)
   and Model/Damage.v (the MAC computations of the writer and the MAC comparisons of the
   reader as lists of (key, iv, message, tag)); tied to /repo by the correspondence of
   tools/props/C04.py (model == implementation at every damage point of generated files,
   toy cipher) and of C01.
   The cipher is the registered adapter (zero-padded CBC, Model/Cbc.v) over ANY block
   function with D k (E k b) = b on 16-byte blocks; C16 shows the bundled AES is one.
   Binary-level statements hold for every offset [off]: 5 for BF3 (the signature), the
   length of signature + authentication blocks for BEC2.

   The four kinds of damage of the property:
   - bytes appended:            C04_suffix, C04_suffix_authentic, C04_text_suffix(_removed)  - unconditional;
   - file cut short:            C04_prefix (binary), C04_text_prefix (text, every character)   - unconditional;
   - any single byte replaced:  C04_byte_replacement (binary, every position, every value),
                                C04_text_byte_replacement (signature included)               - unconditional:
                                with an invertible block function one replaced byte always changes
                                a CBC-MAC tag (C04_mac_byte_sensitive), and the directory size,
                                the entry length bytes and the sentinel are checked structurally;
   - a different session key:   C04_forgery_reduction_partial - what is NOT proved (and cannot be,
                                for an abstract cipher) is that MACs under different keys differ;
                                the theorem reduces acceptance with different content to a MAC
                                forgery; it also covers arbitrary multi-byte replacement.
   The concrete sweep on implementation and model is in tools/props/C04.py. *)
From Coq Require Import List Bool NArith ZArith.
From Coq Require Import Init.Byte.
From Bec2 Require Import Base.Result Base.Bytes Base.Reader Gen.Consts Model.Cbc Model.Bf3 Model.Bf3Eq Model.Damage
  Proofs.CbcProofs Proofs.Bf3Proofs Proofs.Bf3TextProofs Proofs.DamageProofs Proofs.DamageStructProofs
  Proofs.DamageReductionProofs Proofs.DamageTextProofs Proofs.DamageCbcProofs Proofs.DamageByteProofs
  Proofs.DamageTextFinalProofs Proofs.DamageReplaceProofs Proofs.DamageAdapterProofs.
Import ListNotations.
Open Scope N_scope.

(* ---- 1a. bytes appended: no assumption on the cipher at all ---------------------------- *)
(* whatever binary the reader accepts (authentic or not, MAC checking on or off): the same
   binary followed by any non-empty suffix is rejected (BytesReader.ensure_eof) *)
Theorem C04_suffix : forall (dec mac : bytes -> option bytes -> bytes -> result bytes) x off check k cs s,
  from_binary dec mac (mkR x off) check k = Ok cs -> s <> [] ->
  from_binary dec mac (mkR (x ++ s) off) check k = Err EValue.
Proof. exact from_binary_suffix. Qed.
Print Assumptions C04_suffix.

(* the frame property behind it: the reader's run depends only on the bytes it consumes *)
Theorem C04_frame : forall (dec mac : bytes -> option bytes -> bytes -> result bytes) r check k cs r' s,
  from_binary_open dec mac r check k = Ok (cs, r') ->
  from_binary_open dec mac (ext r s) check k = Ok (cs, ext r' s).
Proof. exact from_binary_open_frame. Qed.
Print Assumptions C04_frame.

Section C04.
  Variable E D : bytes -> bytes -> bytes.
  Hypothesis E_len : forall k b, length b = 16%nat -> length (E k b) = 16%nat.
  Hypothesis DE : forall k b, length b = 16%nat -> D k (E k b) = b.

  Let enc := adapter_encrypt E.
  Let dec := adapter_decrypt D.
  Let mac := adapter_mac E.

  (* ---- 1b. the file cut short (crash, full disk): every proper prefix of an authentic
     binary is rejected with a Python exception (never the model's fuel error) - in
     particular the prefixes that only drop trailing 0x00 bytes of the last payload *)
  Theorem C04_prefix : forall cs off k p s check,
    Forall wf_comp cs -> to_binary enc mac cs off k = Ok (p ++ s) -> s <> [] ->
    exists e, from_binary dec mac (mkR p off) check k = Err e /\ e <> EFuel.
  Proof. intros. eapply (ad_prefix E D E_len DE); eassumption. Qed.

  (* an authentic binary followed by anything is rejected *)
  Theorem C04_suffix_authentic : forall cs off k b s check,
    Forall wf_comp cs -> to_binary enc mac cs off k = Ok b -> s <> [] ->
    from_binary dec mac (mkR (b ++ s) off) check k = Err EValue.
  Proof. intros. eapply (ad_suffix E D E_len DE); eassumption. Qed.

  (* ---- 1c. the hex text --------------------------------------------------------------- *)
  (* appended characters that hex2bin removes (white space, ",-./:"): content unchanged *)
  Theorem C04_text_suffix_removed : forall f k t s check,
    wf_file f -> write_file enc mac f k = Ok t -> filter keep s = [] ->
    read_file dec mac (t ++ s) check k = Ok (file_view f).
  Proof. intros. eapply (ad_text_suffix_removed E D E_len DE); eassumption. Qed.

  (* any other appended text (hex digits - also an odd number of them, which hex2bin repairs
     by inserting "0" before the last character - or non-hex characters): rejected *)
  Theorem C04_text_suffix : forall f k t s check,
    wf_file f -> write_file enc mac f k = Ok t -> filter keep s <> [] ->
    read_file dec mac (t ++ s) check k = Err EBf3 \/ read_file dec mac (t ++ s) check k = Err EValue.
  Proof. intros. eapply (ad_text_suffix_rejected E D E_len DE); eassumption. Qed.

  (* every proper prefix of the written text (every crash point of the writer's output stream:
     inside the comment block, at the blank line, between hex pairs, inside a hex pair, inside
     the trailing line breaks), MAC checking on: an error, or exactly the original content
     (the latter only when nothing but line breaks - or the second "0" of a final "00" - is
     lost).  A cut inside a hex pair leaves a dangling digit that hex2bin's odd-length repair
     turns into the byte x / 16: for any pair but the last the binary is then too short
     (C04_cut_inside_pair), for the last pair it is the authentic binary with its last payload
     byte replaced, which the payload MAC always detects (C04_payload_byte). *)
  Theorem C04_text_prefix : forall f k t p s,
    wf_file f -> write_file enc mac f k = Ok t -> t = p ++ s -> s <> [] ->
    (exists e, read_file dec mac p true k = Err e) \/ read_file dec mac p true k = Ok (file_view f).
  Proof. intros. eapply (ad_text_prefix_full E D E_len DE); eassumption. Qed.

  (* the same with MAC checking on or off: a third case appears, the cut through the LAST hex
     pair (byte x <> 0x00): the reader sees the authentic binary with its last byte replaced by
     x / 16 and, without MAC checking, accepts it *)
  Theorem C04_text_prefix_any_check : forall f k t p s check,
    wf_file f -> write_file enc mac f k = Ok t -> t = p ++ s -> s <> [] ->
    (exists e, read_file dec mac p check k = Err e) \/
    read_file dec mac p check k = Ok (file_view f) \/
    (exists b r1 x, to_binary enc mac (f_comps f) (blen BF3_FILE_SIG) k = Ok b /\
       BF3_FILE_SIG ++ b = r1 ++ [x] /\ x <> x00 /\
       read_file dec mac p check k = read_binary dec mac (f_comments f) (r1 ++ [n2b (b2n x / 16)]) check k).
  Proof. intros. eapply (ad_text_prefix E D E_len DE); eassumption. Qed.

  (* binary level: a proper prefix followed by one arbitrary byte is rejected *)
  Theorem C04_cut_inside_pair : forall cs off k b b1 x r2 y check,
    Forall wf_comp cs -> to_binary enc mac cs off k = Ok b ->
    b = b1 ++ x :: r2 -> r2 <> [] -> x <> x00 ->
    exists e, from_binary dec mac (mkR (b1 ++ [y]) off) check k = Err e.
  Proof.
    intros. eapply (cut_byte_rejected enc dec mac (ad_mac_len E D E_len DE) (ad_enc_len E D E_len DE)); eassumption.
  Qed.

  (* ---- 1d. deterministic corollaries: the reader recomputes a value from other bytes and
     compares it with the stored field ------------------------------------------------------ *)
  (* the signature *)
  Theorem C04_signature : forall t b cm check k,
    parse_bf3_file t = Ok (b, cm) -> (forall r, b <> BF3_FILE_SIG ++ r) ->
    read_file dec mac t check k = Err EBf3 \/ read_file dec mac t check k = Err EValue.
  Proof. intros. eapply ad_signature; eassumption. Qed.

  (* where the fields of the component c of an authentic file cs1 ++ c :: cs2 lie *)
  Theorem C04_layout : forall cs1 c cs2 off k b,
    Forall wf_comp (cs1 ++ c :: cs2) -> to_binary enc mac (cs1 ++ c :: cs2) off k = Ok b ->
    exists d1 d2 p1 p2 raw pmac tags emac adr0,
      comp_layout enc mac cs1 c cs2 off k d1 d2 p1 p2 raw pmac tags emac adr0 /\
      b = file_of (dir_of d1 (entry_body (adr0 + blen p1) (blen raw) (c_alen c) pmac tags ++ emac) d2 [x00])
                  (p1 ++ raw ++ p2).
  Proof. intros. eapply (ad_layout E D E_len DE); eassumption. Qed.

  (* damage confined to the stored entry MAC (any of its 16 bytes, any number of them) *)
  Theorem C04_macfield : forall cs1 c cs2 off k d1 d2 p1 p2 raw pmac tags emac adr0 emac',
    comp_layout enc mac cs1 c cs2 off k d1 d2 p1 p2 raw pmac tags emac adr0 ->
    blen emac' = 16 -> emac' <> emac ->
    from_binary dec mac (mkR (file_of (dir_of d1 (entry_body (adr0 + blen p1) (blen raw) (c_alen c) pmac tags ++ emac') d2 [x00])
                                      (p1 ++ raw ++ p2)) off) true k = Err EBf3.
  Proof. intros. eapply (ad_entry_mac_field E D E_len DE); eassumption. Qed.

  (* damage confined to the stored payload MAC: the entry MAC check fails, or else the payload
     MAC check does *)
  Theorem C04_macfield_payload : forall cs1 c cs2 off k d1 d2 p1 p2 raw pmac tags emac adr0 pmac',
    comp_layout enc mac cs1 c cs2 off k d1 d2 p1 p2 raw pmac tags emac adr0 ->
    blen pmac' = 16 -> pmac' <> pmac ->
    exists e,
    from_binary dec mac (mkR (file_of (dir_of d1 (entry_body (adr0 + blen p1) (blen raw) (c_alen c) pmac' tags ++ emac) d2 [x00])
                                      (p1 ++ raw ++ p2)) off) true k = Err e.
  Proof. intros. eapply (ad_payload_mac_field E D E_len DE); eassumption. Qed.

  (* a changed address field: the entry MAC check fails, or else the address comparison does *)
  Theorem C04_address : forall cs1 c cs2 off k d1 d2 p1 p2 raw pmac tags emac adr0 adr',
    comp_layout enc mac cs1 c cs2 off k d1 d2 p1 p2 raw pmac tags emac adr0 ->
    adr' < 256 ^ N.of_nat 4 -> adr' <> adr0 + blen p1 ->
    exists e,
    from_binary dec mac (mkR (file_of (dir_of d1 (entry_body adr' (blen raw) (c_alen c) pmac tags ++ emac) d2 [x00])
                                      (p1 ++ raw ++ p2)) off) true k = Err e.
  Proof. intros. eapply (ad_address_field E D E_len DE); eassumption. Qed.

  (* the sentinel byte replaced by anything else (same length): rejected, MAC checking on or off *)
  Theorem C04_sentinel : forall cs off k b y check,
    Forall wf_comp cs -> to_binary enc mac cs off k = Ok b ->
    exists db pb, b = file_of (db ++ [x00]) pb /\ blen b = blen (file_of (db ++ [y]) pb) /\
      (y <> x00 -> from_binary dec mac (mkR (file_of (db ++ [y]) pb) off) check k = Err EValue).
  Proof. intros. eapply (ad_sentinel E D E_len DE); eassumption. Qed.

  (* ---- 1e. one replaced byte inside a MAC-protected message: unconditional as well ------- *)
  (* the adapter's MAC is the last block of zero-padded CBC; with an invertible block function
     (hypothesis DE) replacing ONE byte of the message always changes the tag *)
  Theorem C04_mac_byte_sensitive : forall k iv u x y v t,
    mac k iv (u ++ x :: v) = Ok t -> mac k iv (u ++ y :: v) = Ok t -> x = y.
  Proof. exact (ad_mac_byte E D E_len DE). Qed.

  (* hence: any single byte of any stored payload replaced -> rejected *)
  Theorem C04_payload_byte : forall cs1 c cs2 off k d1 d2 p1 p2 raw pmac tags emac adr0 u x v y,
    comp_layout enc mac cs1 c cs2 off k d1 d2 p1 p2 raw pmac tags emac adr0 ->
    raw = u ++ x :: v -> y <> x ->
    exists e,
    from_binary dec mac (mkR (file_of (dir_of d1 (entry_body (adr0 + blen p1) (blen raw) (c_alen c) pmac tags ++ emac) d2 [x00])
                                      (p1 ++ (u ++ y :: v) ++ p2)) off) true k = Err e.
  Proof. intros. eapply (ad_payload_byte E D E_len DE); eassumption. Qed.

  (* and any single byte of the MAC-protected part of any directory entry (address, total and
     declared length, payload MAC, description length, tags) replaced -> rejected *)
  Theorem C04_entry_byte : forall cs1 c cs2 off k d1 d2 p1 p2 raw pmac tags emac adr0 u x v y,
    comp_layout enc mac cs1 c cs2 off k d1 d2 p1 p2 raw pmac tags emac adr0 ->
    entry_body (adr0 + blen p1) (blen raw) (c_alen c) pmac tags = u ++ x :: v -> y <> x ->
    exists e,
    from_binary dec mac (mkR (file_of (dir_of d1 ((u ++ y :: v) ++ emac) d2 [x00]) (p1 ++ raw ++ p2)) off) true k = Err e.
  Proof. intros. eapply (ad_entry_body_byte E D E_len DE); eassumption. Qed.

  (* ---- 1f. ANY single byte of an authentic binary replaced by any other value: rejected ----- *)
  (* every position (4-byte directory size, entry length bytes, entry bodies, entry MACs,
     sentinel, payloads), every replacement value - in particular each single-bit flip, 0x00,
     0xFF, +1; the error is a Python exception, never the model's fuel error *)
  Theorem C04_byte_replacement : forall cs off k b u x v y,
    Forall wf_comp cs -> to_binary enc mac cs off k = Ok b -> b = u ++ x :: v -> y <> x ->
    exists e, from_binary dec mac (mkR (u ++ y :: v) off) true k = Err e /\ e <> EFuel.
  Proof. intros. eapply (ad_byte_replacement E D E_len DE); eassumption. Qed.

  (* text level: a text whose hex part decodes to the authentic binary (signature included) with
     one byte replaced *)
  Theorem C04_text_byte_replacement : forall f k b t' cm u x v y,
    Forall wf_comp (f_comps f) -> to_binary enc mac (f_comps f) (blen BF3_FILE_SIG) k = Ok b ->
    BF3_FILE_SIG ++ b = u ++ x :: v -> y <> x ->
    parse_bf3_file t' = Ok (u ++ y :: v, cm) ->
    exists e, read_file dec mac t' true k = Err e.
  Proof. intros. eapply (ad_text_byte_replacement E D E_len DE); eassumption. Qed.

  (* ---- 2. wrong session key (and arbitrary replacement of several bytes): reduction to a MAC
     forgery ---------------------------------------------------------------------------------- *)
  (* PARTIAL: the CBC-MAC is not (and cannot be) proved unforgeable here.  What is proved, for
     every cipher as above: if a binary b' of the authentic length is accepted under a key k'
     with MAC checking on and the content returned differs from the original, then
       - one of the MAC comparisons the reader made on b' under k' succeeded on a
         (key, iv, message, tag) that is not among those the writer computed for the original
         file under k (for k' <> k: any successful comparison is such a quadruple), or
       - the authentic file itself contains two different payloads of equal length with the
         same payload MAC (payload MACs are not bound to the entry index).
     b' = b with k' <> k is the "wrong session key" case; b' <> b with k' = k the
     "byte(s) replaced" case. *)
  Theorem C04_forgery_reduction_partial : forall cs off k b E0 b' k' g,
    Forall wf_comp cs -> to_binary enc mac cs off k = Ok b -> macs_emitted enc mac cs off k = Ok E0 ->
    blen b' = blen b ->
    from_binary dec mac (mkR b' off) true k' = Ok g -> g <> map view cs ->
    (exists q, In q (mac_checks mac b' off k') /\ verified mac q /\ ~ In q E0)
    \/ payload_collision E0.
  Proof. intros. eapply (ad_forgery_reduction E D E_len DE); eassumption. Qed.

  (* without the length restriction there is exactly one more way out: b' is the empty file
     (no entry, hence no MAC at all: the number of components is not authenticated) *)
  Theorem C04_forgery_reduction_general_partial : forall cs off k b E0 b' k' g,
    Forall wf_comp cs -> to_binary enc mac cs off k = Ok b -> macs_emitted enc mac cs off k = Ok E0 ->
    from_binary dec mac (mkR b' off) true k' = Ok g -> g <> map view cs ->
    (exists q, In q (mac_checks mac b' off k') /\ verified mac q /\ ~ In q E0)
    \/ payload_collision E0
    \/ (b' = empty_file /\ g = [] /\ cs <> []).
  Proof. intros. eapply (ad_forgery_reduction_general E D E_len DE); eassumption. Qed.

  (* the writer's MAC list exists whenever the writer accepts the object *)
  Theorem C04_emitted_defined : forall cs off k b,
    Forall wf_comp cs -> to_binary enc mac cs off k = Ok b -> exists E0, macs_emitted enc mac cs off k = Ok E0.
  Proof. intros. eapply (ad_emitted E D E_len DE); eassumption. Qed.
End C04.
Print Assumptions C04_prefix.
Print Assumptions C04_suffix_authentic.
Print Assumptions C04_text_suffix_removed.
Print Assumptions C04_text_suffix.
Print Assumptions C04_text_prefix.
Print Assumptions C04_text_prefix_any_check.
Print Assumptions C04_cut_inside_pair.
Print Assumptions C04_signature.
Print Assumptions C04_layout.
Print Assumptions C04_macfield.
Print Assumptions C04_macfield_payload.
Print Assumptions C04_address.
Print Assumptions C04_sentinel.
Print Assumptions C04_mac_byte_sensitive.
Print Assumptions C04_payload_byte.
Print Assumptions C04_entry_byte.
Print Assumptions C04_byte_replacement.
Print Assumptions C04_text_byte_replacement.
Print Assumptions C04_forgery_reduction_partial.
Print Assumptions C04_forgery_reduction_general_partial.
Print Assumptions C04_emitted_defined.

(* ---- non-vacuity (toy cipher of Model/Cbc.v, concrete 2-component file with one encrypted
   component): the authentic binary reads back; its proper prefix and its extension by 0x00 are
   rejected; the text cut after every character and extended by "0" / "\n" behaves as proved;
   a different authentic file of the same length is accepted with different content, so the
   hypotheses of the reduction are satisfiable. *)
Definition c4_file : bf3 :=
  mkBf3 [([107; 49], [118; 58; 120])]
        [mkComp [(0xC3, [x02]); (0x00, [])] [x01; x00; x00] 2 false;
         mkComp [(0xC2, [x02])] [x09; x08; x07; x00] 4 true].
Definition c4_other : list comp :=
  [mkComp [(0xC3, [x02]); (0x00, [])] [x01; x00; x01] 2 false;
   mkComp [(0xC2, [x02])] [x09; x08; x07; x00] 4 true].
Definition toy_e := adapter_encrypt toyE.
Definition toy_d := adapter_decrypt toyD.
Definition toy_m := adapter_mac toyE.

Example C04_nonvacuous :
  (let* b := to_binary toy_e toy_m (f_comps c4_file) 5 (zeros 16) in
   Ok (from_binary toy_d toy_m (mkR b 5) true (zeros 16),
       from_binary toy_d toy_m (mkR (removelast b) 5) true (zeros 16),
       from_binary toy_d toy_m (mkR (b ++ [x00]) 5) true (zeros 16)))
  = Ok (Ok (map view (f_comps c4_file)), Err EValue, Err EValue).
Proof. vm_compute. reflexivity. Qed.
Print Assumptions C04_nonvacuous.

(* every proper prefix of the text: error or the original content (here the last byte of the
   binary is 0x00-padded ciphertext, so the third case of C04_text_prefix shows up or not
   depending on its value; the check below is the disjunction itself) *)
Definition ok_or_same (want : bf3) (r : result bf3) : bool :=
  match r with Err _ => true | Ok g => bf3_eqb g want end.
Example C04_text_nonvacuous :
  match write_file toy_e toy_m c4_file (zeros 16) with
  | Ok t =>
    forallb (fun n => ok_or_same (file_view c4_file) (read_file toy_d toy_m (firstn n t) true (zeros 16)))
            (seq 0 (length t)) &&
    bf3_eqb (file_view c4_file)
      (match read_file toy_d toy_m (t ++ [10; 32; 13; 10]) true (zeros 16) with Ok g => g | Err _ => mkBf3 [] [] end) &&
    negb (is_ok (read_file toy_d toy_m (t ++ [48]) true (zeros 16))) &&
    negb (is_ok (read_file toy_d toy_m (t ++ [48; 48]) true (zeros 16))) &&
    negb (is_ok (read_file toy_d toy_m (t ++ [90]) true (zeros 16)))
  | Err _ => false
  end = true.
Proof. vm_compute. reflexivity. Qed.
Print Assumptions C04_text_nonvacuous.

(* every byte position of the example file x {bit 0 flipped, bit 7 flipped, 0x00, 0xFF, +1}:
   rejected (the toy block function is invertible, so C04_byte_replacement applies) *)
Fixpoint upd_nth (l : bytes) (i : nat) (y : byte) : bytes :=
  match l, i with
  | [], _ => []
  | _ :: t, O => y :: t
  | h :: t, S j => h :: upd_nth t j y
  end.
Example C04_byte_nonvacuous :
  match to_binary toy_e toy_m (f_comps c4_file) 5 (zeros 16) with
  | Ok b =>
    forallb (fun i =>
      let x := nth i b x00 in
      forallb (fun y => Byte.eqb y x ||
                        negb (is_ok (from_binary toy_d toy_m (mkR (upd_nth b i y) 5) true (zeros 16))))
              [n2b (N.lxor (b2n x) 1); n2b (N.lxor (b2n x) 128); x00; xff; n2b (b2n x + 1)])
      (seq 0 (length b))
  | Err _ => false
  end = true.
Proof. vm_compute. reflexivity. Qed.
Print Assumptions C04_byte_nonvacuous.

(* the hypotheses of the reduction are satisfiable: another authentic file of the same length
   is accepted with different content (whoever made it knew the key: its MACs are "forgeries"
   only in the sense of the theorem - quadruples the writer of c4_file never computed) *)
Example C04_reduction_nonvacuous :
  match to_binary toy_e toy_m (f_comps c4_file) 5 (zeros 16), to_binary toy_e toy_m c4_other 5 (zeros 16),
        macs_emitted toy_e toy_m (f_comps c4_file) 5 (zeros 16) with
  | Ok b, Ok b', Ok E0 =>
    (blen b' =? blen b) &&
    match from_binary toy_d toy_m (mkR b' 5) true (zeros 16) with
    | Ok g => negb (list_eqb comp_eqb g (map view (f_comps c4_file)))
    | Err _ => false
    end &&
    (N.of_nat (length E0) =? 4) && (N.of_nat (length (mac_checks toy_m b' 5 (zeros 16))) =? 4) &&
    (N.of_nat (length (mac_checks toy_m b 5 (zeros 16))) =? 4)
  | _, _, _ => false
  end = true.
Proof. vm_compute. reflexivity. Qed.
Print Assumptions C04_reduction_nonvacuous.
