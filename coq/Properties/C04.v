(* C04 - Damaged or truncated files are never silently accepted as different content.
   Model: Model/Bf3.v (C01; strict BytesReader of Base/Reader.v) and Model/Damage.v
   (the MAC computations of the writer and the MAC verifications of the reader as lists).
   Binary-level theorems are stated for every offset (BF3: 4, BEC2: length of the header). *)
From Coq Require Import List NArith ZArith.
From Coq Require Import Init.Byte.
From Bec2 Require Import Base.Result Base.Bytes Base.Reader Gen.Consts Model.Cbc Model.Bf3 Model.Damage
  Proofs.CbcProofs Proofs.Bf3Proofs Proofs.Bf3TextProofs Proofs.DamageProofs.
Import ListNotations.
Open Scope N_scope.

(* ---- 1a. bytes appended: no assumption on the cipher at all ------------------- *)
(* whatever binary the reader accepts (authentic or not), with MAC checking on or off:
   the same binary followed by any non-empty suffix is rejected *)
Theorem C04_suffix : forall (dec mac : bytes -> option bytes -> bytes -> result bytes) x off check k cs s,
  from_binary dec mac (mkR x off) check k = Ok cs -> s <> [] ->
  from_binary dec mac (mkR (x ++ s) off) check k = Err EValue.
Proof. exact from_binary_suffix. Qed.
Print Assumptions C04_suffix.

Section C04.
  Variable E D : bytes -> bytes -> bytes.
  Hypothesis E_len : forall k b, length b = 16%nat -> length (E k b) = 16%nat.
  Hypothesis DE : forall k b, length b = 16%nat -> D k (E k b) = b.

  Let enc := adapter_encrypt E.
  Let dec := adapter_decrypt D.
  Let mac := adapter_mac E.

  Lemma c4_mac_len : forall k iv d m, d <> [] -> mac k iv d = Ok m -> blen m = 16.
  Proof. exact (adapter_mac_len E D E_len DE). Qed.
  Lemma c4_enc_len : forall k d c, blen d mod 16 = 0 -> enc k None d = Ok c -> blen c = blen d.
  Proof. intros k d c Hm He. exact (proj2 (adapter_inverse E D E_len DE k None d c Hm He)). Qed.
  Lemma c4_dec_enc : forall k d c, blen d mod 16 = 0 -> enc k None d = Ok c -> dec k None c = Ok d.
  Proof. intros k d c Hm He. exact (proj1 (adapter_inverse E D E_len DE k None d c Hm He)). Qed.

  (* ---- 1b. the file cut short: every proper prefix of an authentic binary is rejected
     (in particular the prefixes that only drop trailing 0x00 bytes of the last payload) *)
  Theorem C04_prefix : forall cs off k p s check,
    Forall wf_comp cs -> to_binary enc mac cs off k = Ok (p ++ s) -> s <> [] ->
    exists e, from_binary dec mac (mkR p off) check k = Err e /\ e <> EFuel.
  Proof.
    intros cs off k p s check Hwf Hw Hs.
    pose proof (from_binary_to_binary enc dec mac c4_mac_len c4_enc_len c4_dec_enc cs off k _ check Hwf Hw) as Hr.
    destruct (from_binary_prefix dec mac p s off check k _ Hr Hs) as [e He].
    exists e. split; [exact He|]. intros ->. revert He.
    apply from_binary_no_fuel; intros k0 iv d; unfold mac, dec, adapter_mac, adapter_encrypt, adapter_decrypt.
    - destruct d; cbn [bind]; [discriminate|].
      destruct (negb (key_ok k0)); cbn [bind]; [discriminate|].
      destruct (negb (blen (the_iv iv) =? 16)); cbn [bind]; discriminate.
    - destruct (negb (blen d mod 16 =? 0)); [discriminate|]. destruct d; [discriminate|].
      destruct (negb (key_ok k0)); [discriminate|].
      destruct (negb (blen (the_iv iv) =? 16)); discriminate.
  Qed.

  (* an authentic binary followed by anything is rejected *)
  Theorem C04_suffix_authentic : forall cs off k b s check,
    Forall wf_comp cs -> to_binary enc mac cs off k = Ok b -> s <> [] ->
    from_binary dec mac (mkR (b ++ s) off) check k = Err EValue.
  Proof.
    intros cs off k b s check Hwf Hw Hs.
    eapply from_binary_suffix; [|exact Hs].
    exact (from_binary_to_binary enc dec mac c4_mac_len c4_enc_len c4_dec_enc cs off k _ check Hwf Hw).
  Qed.
End C04.
Print Assumptions C04_prefix.
Print Assumptions C04_suffix_authentic.

(* non-vacuity: the C01 example file; dropping its last byte (a 0x00 of the zero-padded
   encrypted payload is not the point here: the file's last payload byte) and appending 0x00 *)
Definition c4_file : bf3 :=
  mkBf3 [([107; 49], [118; 58; 120])]
        [mkComp [(0xC3, [x02]); (0x00, [])] [x01; x00; x00] 2 false;
         mkComp [(0xC2, [x02])] [x09; x08; x07; x00] 4 true].
Example C04_nonvacuous :
  (let* b := to_binary (adapter_encrypt toyE) (adapter_mac toyE) (f_comps c4_file) 5 (zeros 16) in
   Ok (from_binary (adapter_decrypt toyD) (adapter_mac toyE) (mkR b 5) true (zeros 16),
       from_binary (adapter_decrypt toyD) (adapter_mac toyE) (mkR (removelast b) 5) true (zeros 16),
       from_binary (adapter_decrypt toyD) (adapter_mac toyE) (mkR (b ++ [x00]) 5) true (zeros 16)))
  = Ok (Ok (map view (f_comps c4_file)), Err EValue, Err EValue).
Proof. vm_compute. reflexivity. Qed.
Print Assumptions C04_nonvacuous.
