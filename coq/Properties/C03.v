(* C03 - Written bytes have exactly the documented BF3/BEC2 container layout.
   Specification: Model/Layout.v, a declarative description of the layout written
   from the property text (tag list, directory entry, directory, payload area,
   TLV authentication header, hex text), independent of the writer's code, over an
   abstract MAC function.  Writer: Model/Bf3.v (tied to /repo by the correspondence
   of C01 and of tools/props/C03.py).  The cipher is the registered adapter
   (zero-padded CBC, Model/Cbc.v) over ANY block function with D k (E k b) = b on
   16-byte blocks; C16 shows the bundled AES is such a function. *)
From Coq Require Import List NArith ZArith.
From Coq Require Import Init.Byte.
From Bec2 Require Import Base.Result Base.Bytes Base.Reader Gen.Consts Model.Cbc Model.Bf3 Model.Layout
  Proofs.CbcProofs Proofs.Bf3Proofs Proofs.Bf3TextProofs
  Proofs.LayoutProofs Proofs.LayoutWriterProofs Proofs.LayoutTextProofs.
Import ListNotations.
Open Scope N_scope.

Section C03.
  Variable E D : bytes -> bytes -> bytes.
  Hypothesis E_len : forall k b, length b = 16%nat -> length (E k b) = 16%nat.
  Hypothesis DE : forall k b, length b = 16%nat -> D k (E k b) = b.

  Let enc := adapter_encrypt E.
  Let mac := adapter_mac E.

  Lemma c03_mac_len : forall k iv d m, d <> [] -> mac k iv d = Ok m -> blen m = 16.
  Proof. exact (adapter_mac_len E D E_len DE). Qed.
  Lemma c03_enc_len : forall k d c, blen d mod 16 = 0 -> enc k None d = Ok c -> blen c = blen d.
  Proof. intros k d c Hm He. exact (proj2 (adapter_inverse E D E_len DE k None d c Hm He)). Qed.

  (* Whatever the writer returns is a body with the documented layout for the header
     length (start offset) it was given - every offset, also beyond 2^16, every key,
     every component list of C01's quantifier; the field records are those of the
     components: tag list in stored order, declared length, payload = the stored
     (possibly encrypted) data; address, stored length and payload MAC are forced by
     the layout predicate itself. *)
  Theorem C03_bf3 : forall cs off k b,
    Forall wf_comp cs -> to_binary enc mac cs off k = Ok b ->
    exists fs, is_bf3_body mac off k fs b /\ Forall2 (comp_fields enc k) cs fs.
  Proof. intros. eapply (to_binary_layout enc mac c03_mac_len c03_enc_len); eassumption. Qed.

  (* BF3 file: signature, then the body at offset 5; printed as the documented text *)
  Theorem C03_bf3_file : forall f k t,
    Forall wf_comp (f_comps f) -> write_file enc mac f k = Ok t ->
    exists bin fs, is_bf3_text (f_comments f) bin t /\ is_bf3_file mac k fs bin /\
                   Forall2 (comp_fields enc k) (f_comps f) fs.
  Proof.
    intros f k t Hwf H. unfold write_file in H.
    destruct (to_binary enc mac (f_comps f) (blen BF3_FILE_SIG) k) as [b|] eqn:Eb; cbn [bind] in H; [|discriminate].
    injection H as <-.
    destruct (to_binary_layout enc mac c03_mac_len c03_enc_len _ _ _ _ Hwf Eb) as [fs [Hb Hc]].
    exists (BF3_FILE_SIG ++ b), fs. split; [apply write_bf3_format_text|]. split; [|exact Hc].
    exists b. split; [reflexivity|exact Hb].
  Qed.

  (* BEC2 framing: signature, TLV authentication blocks closed by 00 00, then the body
     at offset = header length (Bec2File.to_binary: header + to_binary(len(header), key)) *)
  Theorem C03_bec2_frame : forall blocks cs k body,
    tlv_ok blocks -> Forall wf_comp cs ->
    to_binary enc mac cs (blen (BEC2_SIGNATURE ++ ser_tlv_header blocks)) k = Ok body ->
    exists fs, is_bec2_file mac blocks k fs (BEC2_SIGNATURE ++ ser_tlv_header blocks ++ body) /\
               Forall2 (comp_fields enc k) cs fs.
  Proof.
    intros blocks cs k body Hb Hwf H.
    destruct (to_binary_layout enc mac c03_mac_len c03_enc_len _ _ _ _ Hwf H) as [fs [Hl Hc]].
    exists fs. split; [|exact Hc].
    exists (ser_tlv_header blocks), body. split; [apply ser_tlv_header_is, Hb|]. split; [reflexivity|exact Hl].
  Qed.

  (* the adapter's MAC is the last 16 bytes of the CBC encryption of the zero-padded
     data, and that is the CBC-MAC written from its definition (last chaining value) *)
  Theorem C03_mac_is_last_cbc_block : forall k iv d m,
    d <> [] -> mac k iv d = Ok m ->
    m = lastN 16 (cbc_enc E (length (zero_pad d)) k (the_iv iv) (zero_pad d)) /\
    m = cbc_mac_spec E xor_bytes k (the_iv iv) d.
  Proof. exact (adapter_mac_is_cbc_mac E E_len). Qed.
End C03.
Print Assumptions C03_bf3.
Print Assumptions C03_bf3_file.
Print Assumptions C03_bec2_frame.
Print Assumptions C03_mac_is_last_cbc_block.

(* the layout determines the bytes: the writer's output is THE serialisation of its fields *)
Theorem C03_unique : forall mac off k fs b b',
  is_bf3_body mac off k fs b -> is_bf3_body mac off k fs b' -> b = b'.
Proof. exact layout_unique. Qed.
Print Assumptions C03_unique.

(* and the bytes determine the fields (with or without the MAC clauses) *)
Theorem C03_fields_unique : forall mac auth off k b fs fs',
  is_bf3_body_gen mac auth off k fs b -> is_bf3_body_gen mac auth off k fs' b -> fs = fs'.
Proof. exact fields_unique. Qed.
Print Assumptions C03_fields_unique.

(* the executable checker decides the layout (run on the implementation's bytes by the harness) *)
Theorem C03_checker : forall mac off k b fs,
  check_layout mac off k b = Ok fs <-> is_bf3_body mac off k fs b.
Proof. intros mac off k b fs. exact (check_layout_gen_iff mac true off k b fs). Qed.
Print Assumptions C03_checker.

(* the BEC2 header: serialiser and parser are inverse on the documented TLV shape *)
Theorem C03_tlv_header_roundtrip : forall blocks tail,
  tlv_ok blocks ->
  is_tlv_header blocks (ser_tlv_header blocks) /\
  parse_tlv_header (S (length blocks)) (ser_tlv_header blocks ++ tail) = Ok (blocks, tail).
Proof.
  intros blocks tail H. split; [apply ser_tlv_header_is, H|apply parse_ser_tlv_header; [exact H|apply Nat.lt_succ_diag_r]].
Qed.
Print Assumptions C03_tlv_header_roundtrip.

Theorem C03_tlv_header_parse : forall fuel b blocks r,
  parse_tlv_header fuel b = Ok (blocks, r) ->
  exists hdr, b = hdr ++ r /\ is_tlv_header blocks hdr /\ hdr = ser_tlv_header blocks.
Proof.
  intros fuel b blocks r H. destruct (parse_tlv_header_sound fuel b blocks r H) as [hdr [E Hh]].
  exists hdr. split; [exact E|]. split; [exact Hh|apply tlv_header_ser, Hh].
Qed.
Print Assumptions C03_tlv_header_parse.

(* text: 'key: value' lines, one blank line, upper-case hex wrapped at 80 columns *)
Theorem C03_text : forall cm raw, is_bf3_text cm raw (write_bf3_format cm raw).
Proof. exact write_bf3_format_text. Qed.
Print Assumptions C03_text.

(* what is_hex_lines says about widths, spelled out: the hex part is a sequence of
   non-empty lines of upper-case hex digits, each at most 80 columns and all but the
   last exactly 80, optionally followed by one empty line; together they are the
   2 * length hex digits of the binary *)
Theorem C03_text_widths : forall b t, is_hex_lines b t ->
  exists lines : list text, exists tail : text,
    t = flat_map (fun l => l ++ [T_NL]) lines ++ tail /\ (tail = [] \/ tail = [T_NL]) /\
    Forall (fun l => Forall upper_hex_digit l /\ 1 <= blen l /\ blen l <= 80) lines /\
    (forall l, In l (removelast lines) -> blen l = 80) /\
    blen (concat lines) = 2 * blen b.
Proof. exact is_hex_lines_widths. Qed.
Print Assumptions C03_text_widths.

(* the constants of the specification are those of the source *)
Theorem C03_signatures : BF3_SIGNATURE = BF3_FILE_SIG /\ BEC2_SIGNATURE = BEC2_FILE_SIG.
Proof. split; reflexivity. Qed.
Print Assumptions C03_signatures.

(* non-vacuity: a concrete 2-component file (one encrypted) under the toy cipher: the
   writer accepts it at offset 65536 and the proved checker recovers its fields *)
Definition c03_ex : list comp :=
  [mkComp [(0xC3, [x02]); (0x00, [])] [x01; x00; x00] 2 false;
   mkComp [(0xC2, [x02])] [x09; x08; x07; x00] 4 true].
Example C03_nonvacuous :
  (let* b := to_binary (adapter_encrypt toyE) (adapter_mac toyE) c03_ex 65536 (zeros 16) in
   let* fs := check_layout (adapter_mac toyE) 65536 (zeros 16) b in
   Ok (map (fun f => (ef_adr (fr_entry f), ef_total (fr_entry f), ef_actual (fr_entry f), ef_tags (fr_entry f))) fs))
  = Ok [(65536 + 4 + 101, 3, 2, [(0xC3, [x02]); (0x00, [])]); (65536 + 4 + 101 + 3, 16, 4, [(0xC2, [x02])])].
Proof. vm_compute. reflexivity. Qed.
Print Assumptions C03_nonvacuous.
