(* C10 - Configurations encode to bounded TLV blocks that decode to the same
   operations.
   Model: Model/ConfTlv.v part 1 (hand model of conf_dict_to_list,
   conf_dict_to_tlv, Bf3File.set_config; MAX_TLVBLOCK_SIZE and the tag constants
   are generated from the source).  Specification: Model/ConfTlv.v part 2 (the
   operations of a dictionary, their order, the TLV grammar as the relation
   Items/Blocks and as the strict executable decoder decode_blocks /
   decode_blob_blocks).

   wf_conf d (the quantifier): no two entries with the same (key, value) (a
   Python dict), keys <= 0xFFFF, value ids <= 0xFE, contents <= 254 bytes, and no
   delete-key entry together with a delete-value entry of the same key (Python's
   sort of the delete list raises TypeError there; the property's quantifier
   excludes it).  No bound on the number of entries or on the entry sizes. *)
From Coq Require Import List NArith Permutation Sorted Lia.
From Coq Require Import Init.Byte.
From Bec2 Require Import Base.Result Base.Bytes Gen.Consts Model.ConfTlv Proofs.ConfTlvProofs.
Import ListNotations.
Open Scope N_scope.

(* The encoded blocks are in the grammar and decode to exactly: all deletions in
   sorted order, then all value assignments in sorted order (exact contents).
   Holds for every well-formed dictionary, whatever the entry sizes (an oversize
   entry gets a block of its own). *)
Theorem C10_decode : forall d, wf_conf d ->
  exists bl, conf_dict_to_tlv d = Ok bl /\
    Blocks bl (sorted_deletes d ++ sorted_sets d) /\
    decode_blocks bl = Ok (sorted_deletes d ++ sorted_sets d).
Proof. exact conf_dict_decodes. Qed.
Print Assumptions C10_decode.

(* "sorted order ... each once": both groups are sorted by (key, value id), they
   are the dictionary's deletions resp. assignments, and together a permutation
   of the dictionary's operations *)
Theorem C10_order : forall d,
  StronglySorted op_le (sorted_deletes d) /\ StronglySorted op_le (sorted_sets d) /\
  Permutation (sorted_deletes d) (filter is_delete (dict_ops d)) /\
  Permutation (sorted_sets d) (filter is_assign (dict_ops d)) /\
  Permutation (sorted_deletes d ++ sorted_sets d) (dict_ops d).
Proof. exact sorted_ops_spec. Qed.
Print Assumptions C10_order.

(* the order is a total order on (key, value id): the sorted list is unique *)
Theorem C10_order_total : forall a b c : op,
  (op_le a b \/ op_le b a) /\ (op_le a b -> op_le b c -> op_le a c) /\
  (op_le a b -> op_le b a -> op_skey a = op_skey b).
Proof.
  intros a b c. unfold op_le, skey_le. split; [|split].
  - destruct (skey_leb (op_skey a) (op_skey b)) eqn:E; [left; reflexivity|].
    right. apply skey_leb_total, E.
  - apply skey_le_trans.
  - apply skey_le_antisym.
Qed.
Print Assumptions C10_order_total.

(* every block has 1..117 bytes whenever every single entry fits in one block *)
Theorem C10_bound : forall d bl,
  (forall e, In e d -> entry_size e <= 117) ->
  conf_dict_to_tlv d = Ok bl ->
  forall b, In b bl -> 1 <= blen b <= 117.
Proof. exact conf_dict_to_tlv_bound. Qed.
Print Assumptions C10_bound.

(* no empty block, no side condition at all *)
Theorem C10_nonempty : forall d bl, conf_dict_to_tlv d = Ok bl ->
  forall b, In b bl -> b <> [].
Proof. exact conf_dict_to_tlv_nonempty. Qed.
Print Assumptions C10_nonempty.

(* set_config: the previous configuration component is removed, the new one is
   appended; its blob is the dictionary's blocks, then the caller's extra blocks
   unchanged, each behind its length byte, then one 00; tags TYPE=3
   (configuration), ENC=2 (session key), FMT=3 (TLV), REBOOT=1; actual_len =
   len(blob); encrypted by the session key.  The blob splits back into exactly
   these blocks when no extra block is empty.  (Blocks above 255 bytes: see
   C10_blob_overflow.) *)
Theorem C10_blob : forall comps d extra tlv,
  conf_dict_to_tlv d = Ok tlv ->
  (forall b, In b (tlv ++ extra) -> blen b <= 255) ->
  let blob := framed tlv ++ framed extra ++ [x00] in
  set_config comps d extra =
    Ok (remove_first_config comps ++
        [mkComp [(0xC3, [x03]); (0xC2, [x02]); (0xC1, [x03]); (0xC5, [x01])] blob (blen blob) true]) /\
  ((forall b, In b extra -> b <> []) -> decode_blob_blocks blob = Ok (tlv ++ extra)).
Proof.
  intros comps d extra tlv Ht Hb blob. split.
  - exact (set_config_ok comps d extra tlv Ht Hb).
  - intro He. apply set_config_blob_splits; [|exact Hb|exact He].
    exact (conf_dict_to_tlv_nonempty d tlv Ht).
Qed.
Print Assumptions C10_blob.

(* end to end, for the dictionaries whose entries fit: set_config succeeds, the
   blob splits into blocks of 1..117 bytes followed by the extra blocks, and the
   dictionary's blocks decode to the dictionary's operations *)
Theorem C10_blob_fits : forall comps d extra,
  wf_conf d -> (forall e, In e d -> entry_size e <= 117) ->
  (forall b, In b extra -> 1 <= blen b <= 255) ->
  exists tlv blob,
    set_config comps d extra =
      Ok (remove_first_config comps ++
          [mkComp [(0xC3, [x03]); (0xC2, [x02]); (0xC1, [x03]); (0xC5, [x01])] blob (blen blob) true]) /\
    blob = framed tlv ++ framed extra ++ [x00] /\
    decode_blob_blocks blob = Ok (tlv ++ extra) /\
    (forall b, In b tlv -> 1 <= blen b <= 117) /\
    decode_blocks tlv = Ok (sorted_deletes d ++ sorted_sets d).
Proof.
  intros comps d extra Hwf Hfit Hex.
  destruct (conf_dict_decodes d Hwf) as [tlv [Ht [_ Hdec]]].
  pose proof (conf_dict_to_tlv_bound d tlv Hfit Ht) as Hb.
  assert (H255 : forall b, In b (tlv ++ extra) -> blen b <= 255).
  { intros b Hin. apply in_app_or in Hin as [Hin|Hin]; [apply Hb in Hin|apply Hex in Hin]; lia. }
  exists tlv, (framed tlv ++ framed extra ++ [x00]).
  split; [exact (set_config_ok comps d extra tlv Ht H255)|]. split; [reflexivity|].
  split; [|split; [exact Hb|exact Hdec]].
  apply set_config_blob_splits; [exact (conf_dict_to_tlv_nonempty d tlv Ht)|exact H255|].
  intros b Hin E. apply Hex in Hin. subst b. cbn in Hin. lia.
Qed.
Print Assumptions C10_blob_fits.

(* a block (of the dictionary or of the caller) above 255 bytes cannot be
   framed: set_config raises OverflowError, nothing is written silently *)
Theorem C10_blob_overflow : forall comps d extra tlv,
  conf_dict_to_tlv d = Ok tlv ->
  (exists b, In b (tlv ++ extra) /\ 255 < blen b) ->
  set_config comps d extra = Err EOverflow.
Proof. exact set_config_overflow. Qed.
Print Assumptions C10_blob_overflow.

(* non-vacuity: a well-formed dictionary with all three kinds of entries, a
   delete-value and a set of the same key, a same-key run and a block split *)
Definition ex_dict : cdict :=
  [ ((1, Some 1), Some [x01; x02; xff]); ((5, None), None); ((1, Some 0), None);
    ((0x620, Some 7), Some [xaa; xbb]); ((1, Some 3), Some (zeros 110)); ((0xFFFF, Some 0xFE), Some []) ].

Example C10_nonvacuous :
  wf_conf ex_dict /\ (forall e, In e ex_dict -> entry_size e <= 117) /\
  (exists b1 b2 b3, conf_dict_to_tlv ex_dict = Ok [b1; b2; b3]) /\
  sorted_deletes ex_dict ++ sorted_sets ex_dict =
    [DelVal 1 0; DelKey 5; SetVal 1 1 [x01; x02; xff]; SetVal 1 3 (zeros 110);
     SetVal 0x620 7 [xaa; xbb]; SetVal 0xFFFF 0xFE []].
Proof.
  split; [|split; [|split]].
  - split; [|split].
    + cbn [ex_dict map fst]. repeat (constructor; [cbn [In]; intuition congruence|]). constructor.
    + unfold ex_dict. repeat (constructor; [vm_compute; intuition discriminate|]). constructor.
    + intros k v c H1 H2. cbn [ex_dict In] in H1, H2. intuition congruence.
  - intros e He. cbn [ex_dict In] in He.
    repeat (destruct He as [<-|He]; [vm_compute; discriminate|]). destruct He.
  - vm_compute. do 3 eexists. reflexivity.
  - vm_compute. reflexivity.
Qed.
Print Assumptions C10_nonvacuous.

(* regression witness (defect D3, fixed in /repo): an oversize entry in first
   position gives ONE non-empty block that decodes to the entry; and a set entry
   whose block exceeds 255 bytes makes set_config raise OverflowError *)
Example C10_oversize_first :
  (exists b, conf_dict_to_tlv [((1, Some 1), Some (zeros 200))] = Ok [b] /\ blen b = 205 /\
             decode_blocks [b] = Ok [SetVal 1 1 (zeros 200)]) /\
  set_config [] [((1, Some 1), Some (zeros 254))] [] = Err EOverflow.
Proof. split; [eexists; split; [|split]|]; vm_compute; reflexivity. Qed.
Print Assumptions C10_oversize_first.
