(* C12 - Configuration identifiers match the config and their text form round-trips.

   Model: Model/ConfigId.v (hand model of bec2format/configid.py: constructor, both
   factories, __str__/cfgid_str, create_from_str, __eq__).  UNKNOWN, the two re.match
   patterns and the format strings (data) are generated from the source
   (Gen/ConfigIdConsts.v) and tied to the hand-written matcher/printer by C12_source_tie.

   Text = list of code points.  The model's digit class is ASCII 0-9, which is exactly
   CPython's `\d` on code points <= 255 (and on every text without non-ASCII decimal
   digits).  Theorems whose truth for CPython depends on the digit class of arbitrary text
   carry the hypothesis [latin1] (all code points <= 255); the proofs about the model do not
   use it - it marks the range in which the model is CPython.  In the numeric form pattern 1
   applies `\d` only to the 18 printed characters and the name is consumed by dot-star, so
   C12_roundtrip_numeric needs no restriction on the name's alphabet; C12_error holds for
   CPython on every text as well (either pattern matches or the format error is raised).
   Integers are naturals (all integers that occur are int.from_bytes / int() results). *)
From Coq Require Import List NArith Lia.
From Coq Require Strings.String.
Import Strings.String.StringSyntax.
From Coq Require Import Init.Byte.
From Bec2 Require Import Base.Result Base.Bytes Gen.ConfigIdConsts Model.ConfigId Proofs.ConfigIdProofs.
Import ListNotations.
Open Scope N_scope.

(* DATA tie.  The strings implemented by the hand-written matcher and printer (rendered from
   the model's field widths 5/4/4/2, separator '-', literal " (version ", ')') are the two
   patterns passed to re.match in create_from_str (in source order) and the template string
   constants (those with a replacement field) of cfgid_str (two formats) and __str__ (name-only
   format); UNKNOWN is 9999.  Plain strings (separators, keyword names) are behaviour, not data.
   The CODE (control flow, which group feeds which field) is tied by the correspondence. *)
Theorem C12_source_tie :
  CFGID_PATTERN_NUMERIC = model_pattern_numeric /\ CFGID_PATTERN_NAMEONLY = model_pattern_nameonly /\
  CFGID_CFGIDSTR_STRINGS = [model_fmt_devsettings; model_fmt_full] /\
  CFGID_STR_STRINGS = [model_fmt_nameonly] /\ CFGID_UNKNOWN = 9999.
Proof. repeat split. Qed.
Print Assumptions C12_source_tie.

(* ---- "{:0w}" and int(): every field, symbolically ---- *)

Theorem C12_parse_fmt_dec : forall w n, n < 10 ^ N.of_nat w -> parse_dec (fmt_dec w n) = n.
Proof. intros w n _. apply parse_fmt_dec_all. Qed.
Print Assumptions C12_parse_fmt_dec.

(* in range the field has exactly w digits; out of range it GROWS (and still reads back) *)
Theorem C12_fmt_dec_width : forall w n, (1 <= w)%nat ->
  all_digits (fmt_dec w n) /\ parse_dec (fmt_dec w n) = n /\
  (n < 10 ^ N.of_nat w -> length (fmt_dec w n) = w) /\
  (10 ^ N.of_nat w <= n -> (w < length (fmt_dec w n))%nat).
Proof.
  intros w n Hw. split; [apply fmt_dec_digits|]. split; [apply parse_fmt_dec_all|].
  split; [intro H; now apply fmt_dec_width | apply fmt_dec_grows].
Qed.
Print Assumptions C12_fmt_dec_width.

(* a w-digit string prints back as itself (leading zeros kept) *)
Theorem C12_fmt_parse_dec : forall ds, all_digits ds -> (1 <= length ds)%nat ->
  fmt_dec (length ds) (parse_dec ds) = ds.
Proof. exact fmt_dec_parse_dec. Qed.
Print Assumptions C12_fmt_parse_dec.

(* ---- identifiers derived from a configuration ---- *)

(* Project settings: complete case table over the 0x0620 values present (the byte strings
   are arbitrary: every width).  version = 0x07, name = 0x06, customer = 0x01,
   project = 0x05, device = 0x02 (default 0).  [mk_cid] is the constructor, which maps the
   'unknown' code 9999 to None. *)
Theorem C12_from_config : forall cfg,
  (match cfg_get cfg (K 0x07) with
   | None => create_from_prj_settings cfg = Err EMissPrj
   | Some vb =>
     match decode_opt (cfg_get cfg (K 0x06)) with
     | Err _ => create_from_prj_settings cfg = Err EUnicode
     | Ok nm =>
       match cfg_get cfg (K 0x01), cfg_get cfg (K 0x05) with
       | Some cb, Some pb =>
         create_from_prj_settings cfg =
         Ok (mk_cid (Some (from_be cb)) (Some (from_be pb)) (Some (device_of (cfg_get cfg (K 0x02))))
                    (Some (from_be vb)) nm)
       | _, _ =>
         create_from_prj_settings cfg =
         if name_falsy nm then Err EMissPrj else Ok (mk_cid None None None (Some (from_be vb)) nm)
       end
     end
   end) /\
  (* device settings: version = 0x04, name = 0x03, customer = 0x01, device = 0x02; the
     project is the constant 0, also in the name-only fallback *)
  (match cfg_get cfg (K 0x04) with
   | None => create_from_dev_settings cfg = Err EMissDev
   | Some vb =>
     match decode_opt (cfg_get cfg (K 0x03)) with
     | Err _ => create_from_dev_settings cfg = Err EUnicode
     | Ok nm =>
       match cfg_get cfg (K 0x01) with
       | Some cb =>
         create_from_dev_settings cfg =
         Ok (mk_cid (Some (from_be cb)) (Some 0) (Some (device_of (cfg_get cfg (K 0x02))))
                    (Some (from_be vb)) nm)
       | None =>
         create_from_dev_settings cfg =
         if name_falsy nm then Err EMissDev else Ok (mk_cid None (Some 0) None (Some (from_be vb)) nm)
       end
     end
   end).
Proof. intro cfg. split; [apply prj_table | apply dev_table]. Qed.
Print Assumptions C12_from_config.

(* the documented error exactly when the version is absent, or the numeric scheme is
   incomplete and there is no (non-empty) name *)
Theorem C12_from_config_missing : forall cfg,
  (create_from_prj_settings cfg = Err EMissPrj <->
   cfg_get cfg (K 0x07) = None \/
   ((cfg_get cfg (K 0x01) = None \/ cfg_get cfg (K 0x05) = None) /\ no_name (cfg_get cfg (K 0x06)))) /\
  (create_from_dev_settings cfg = Err EMissDev <->
   cfg_get cfg (K 0x04) = None \/ (cfg_get cfg (K 0x01) = None /\ no_name (cfg_get cfg (K 0x03)))).
Proof. intro cfg. split; [apply prj_missing_iff | apply dev_missing_iff]. Qed.
Print Assumptions C12_from_config_missing.

(* ---- identifier -> text -> identifier ---- *)

(* Numeric form.  project/device may also be None (printed as 9999, read back as None).
   name_ok: the name is absent, or non-empty and without '\n' (leading/trailing blanks,
   "(version NN)", digits and dashes, '\r' are all fine). *)
Theorem C12_roundtrip_numeric : forall c p d v nm,
  c <= 99999 -> c <> 9999 -> opt_le p 9999 -> opt_le d 9999 -> v <= 99 -> name_ok nm ->
  exists t, cid_str (mk_cid (Some c) p d (Some v) nm) = Ok t /\
            create_from_str t = Ok (mk_cid (Some c) p d (Some v) nm).
Proof. exact roundtrip_numeric. Qed.
Print Assumptions C12_roundtrip_numeric.

(* ... and name_ok is exactly the condition: an empty name or a name containing '\n' does
   not come back *)
Theorem C12_roundtrip_numeric_exact : forall c p d v nm,
  c <= 99999 -> c <> 9999 -> opt_le p 9999 -> opt_le d 9999 -> v <= 99 ->
  ((exists t, cid_str (mk_cid (Some c) p d (Some v) nm) = Ok t /\
              create_from_str t = Ok (mk_cid (Some c) p d (Some v) nm))
   <-> name_ok nm).
Proof. exact roundtrip_numeric_iff. Qed.
Print Assumptions C12_roundtrip_numeric_exact.

Example C12_roundtrip_numeric_emptyname_refuted :
  let i := mk_cid (Some 1) (Some 2) (Some 3) (Some 4) (Some []) in
  exists t i', cid_str i = Ok t /\ create_from_str t = Ok i' /\ cid_eqb i i' = false.
Proof. eexists. eexists. split; [vm_compute; reflexivity|]. split; vm_compute; reflexivity. Qed.
Print Assumptions C12_roundtrip_numeric_emptyname_refuted.

(* Name-only form (customer None): holds for single-line names that do not start like a
   numeric id.  What is missing for the full statement: names with an id-like prefix
   (known finding D5, the text format is ambiguous).  The condition is on the name's first
   18 characters only (pattern 1 is a prefix match with an optional tail), i.e. it is weaker
   than "matches ddddd-dddd-dddd-dd followed by a blank or the end". *)
Theorem C12_roundtrip_nameonly_partial : forall c p d v nm,
  latin1 nm ->
  norm_unknown c = None -> norm_unknown p = None -> norm_unknown d = None ->
  v <= 99 -> single_line nm -> ~ id_prefixed nm ->
  exists t, cid_str (mk_cid c p d (Some v) (Some nm)) = Ok t /\
            create_from_str t = Ok (mk_cid c p d (Some v) (Some nm)).
Proof. intros c p d v nm _. apply roundtrip_nameonly. Qed.
Print Assumptions C12_roundtrip_nameonly_partial.

(* the two conditions are exactly what is needed *)
Theorem C12_roundtrip_nameonly_exact : forall c p d v nm,
  latin1 nm ->
  norm_unknown c = None -> norm_unknown p = None -> norm_unknown d = None -> v <= 99 ->
  ((exists t, cid_str (mk_cid c p d (Some v) (Some nm)) = Ok t /\
              create_from_str t = Ok (mk_cid c p d (Some v) (Some nm)))
   <-> single_line nm /\ ~ id_prefixed nm).
Proof. intros c p d v nm _. apply roundtrip_nameonly_iff. Qed.
Print Assumptions C12_roundtrip_nameonly_exact.

(* the unrestricted name-only statement is false: "12345-1234-1234-12 foo" (D5) *)
Example C12_roundtrip_nameonly_refuted :
  exists nm v, v <= 99 /\ single_lineb nm = true /\
    let i := mk_cid None None None (Some v) (Some nm) in
    exists t i', cid_str i = Ok t /\ create_from_str t = Ok i' /\ cid_eqb i i' = false /\
                 cid_customer i' = Some 12345.
Proof.
  exists (s2l "12345-1234-1234-12 foo"), 7. split; [lia|]. split; [vm_compute; reflexivity|].
  eexists. eexists. split; [vm_compute; reflexivity|]. repeat split; vm_compute; reflexivity.
Qed.
Print Assumptions C12_roundtrip_nameonly_refuted.

(* Outside the quantifier (customer None with a project): the name-only identifier that
   create_from_dev_settings builds keeps project = 0, which the text form cannot express. *)
Example C12_roundtrip_devsettings_fallback_refuted :
  exists cfg i t i', create_from_dev_settings cfg = Ok i /\ cid_str i = Ok t /\
    create_from_str t = Ok i' /\ cid_eqb i i' = false /\ cid_project i = Some 0 /\ cid_project i' = None.
Proof.
  exists [(K 4, [x07]); (K 3, ["f"; "o"; "o"]%byte)]. eexists. eexists. eexists.
  split; [vm_compute; reflexivity|]. split; [vm_compute; reflexivity|].
  repeat split; vm_compute; reflexivity.
Qed.
Print Assumptions C12_roundtrip_devsettings_fallback_refuted.

(* ---- text -> identifier -> text ---- *)

(* canonical text: ddddd-dddd-dddd-dd with customer digits other than 09999, optionally
   followed by one blank and a non-empty single-line name; or  name (version dd)  with a
   single-line name, the whole text not starting like a numeric id *)
Theorem C12_text_roundtrip : forall t i,
  latin1 t -> create_from_str t = Ok i -> canonical t -> cid_str i = Ok t.
Proof. intros t i _. apply text_roundtrip. Qed.
Print Assumptions C12_text_roundtrip.

Example C12_canonical_nonvacuous :
  canonical (s2l "00001-9999-0000-07 Door (version 01)") /\ canonical (s2l "Door 7 (version 03)") /\
  exists i, create_from_str (s2l "00001-9999-0000-07 Door (version 01)") = Ok i /\ cid_project i = None.
Proof.
  split; [|split].
  - left. exists (s2l "00001"), (s2l "9999"), (s2l "0000"), (s2l "07"), (s2l " Door (version 01)").
    split; [|split; [vm_compute; discriminate|split; [reflexivity|]]].
    + unfold id_fields_ok, all_digits. repeat split; repeat constructor.
    + right. exists (s2l "Door (version 01)"). split; [discriminate|]. split; [|reflexivity].
      apply single_lineb_spec. reflexivity.
  - right. split.
    + apply match_id_none_iff. reflexivity.
    + exists (s2l "Door 7"), (s2l "03"). split; [apply single_lineb_spec; reflexivity|].
      split; [repeat constructor|]. split; reflexivity.
  - eexists. split; vm_compute; reflexivity.
Qed.
Print Assumptions C12_canonical_nonvacuous.

(* what the printer produces for identifiers in range is canonical *)
Theorem C12_printed_canonical : forall c p d v nm t,
  c <= 99999 -> c <> 9999 -> opt_le p 9999 -> opt_le d 9999 -> v <= 99 -> name_ok nm ->
  cid_str (mk_cid (Some c) p d (Some v) nm) = Ok t -> canonical t.
Proof. exact printed_numeric_canonical. Qed.
Print Assumptions C12_printed_canonical.

(* ---- errors ---- *)

Theorem C12_error : forall t, (exists i, create_from_str t = Ok i) \/ create_from_str t = Err ECfgId.
Proof. exact create_from_str_errors. Qed.
Print Assumptions C12_error.

(* ConfigIdFormatError exactly for the texts that neither start like a numeric id nor
   contain " (version dd)" on their first line *)
Theorem C12_error_iff : forall t, latin1 t ->
  (create_from_str t = Err ECfgId <-> ~ id_prefixed t /\ ~ has_version_tail t).
Proof. intros t _. apply create_from_str_error_iff. Qed.
Print Assumptions C12_error_iff.

(* what a successful parse denotes: the four numbers and the optional name of the first
   line (numeric form); the LAST " (version dd)" of the first line (name-only form) *)
Theorem C12_parse_numeric : forall c p d v rest, id_fields_ok c p d v ->
  create_from_str (id_text c p d v ++ rest) =
  Ok (mk_cid (Some (parse_dec c)) (Some (parse_dec p)) (Some (parse_dec d)) (Some (parse_dec v))
             (match rest with x :: r => if x =? 32 then Some (first_line r) else None | [] => None end)).
Proof. exact create_from_str_numeric_spec. Qed.
Print Assumptions C12_parse_numeric.

Theorem C12_parse_nameonly : forall t i, latin1 t -> ~ id_prefixed t -> create_from_str t = Ok i ->
  exists nm v rest, single_line nm /\ all_digits v /\ length v = W_VERSION /\
    t = nm ++ version_text v ++ rest /\
    i = mk_cid None None None (Some (parse_dec v)) (Some nm) /\
    forall a v' rest', single_line a -> all_digits v' -> length v' = W_VERSION ->
      t = a ++ version_text v' ++ rest' -> (length a <= length nm)%nat.
Proof. intros t i _. apply create_from_str_nameonly_spec. Qed.
Print Assumptions C12_parse_nameonly.

(* non-vacuity of the round-trip hypotheses: special values 9999 (project and device),
   device 0, a name containing "(version NN)" and an id-like text after a blank *)
Example C12_nonvacuous :
  exists t, cid_str (mk_cid (Some 99999) (Some 9999) None (Some 0) (Some (s2l " a (version 07) 12345-1234-1234-12"))) = Ok t /\
            t = s2l "99999-9999-9999-00  a (version 07) 12345-1234-1234-12" /\
            create_from_str t = Ok (mk_cid (Some 99999) None (Some 9999) (Some 0) (Some (s2l " a (version 07) 12345-1234-1234-12"))) /\
  exists t', cid_str (mk_cid (Some 9999) None None (Some 99) (Some (s2l "1234-12 x (version 1)"))) = Ok t' /\
            create_from_str t' = Ok (mk_cid None None None (Some 99) (Some (s2l "1234-12 x (version 1)"))).
Proof. eexists. split; [vm_compute; reflexivity|]. split; [reflexivity|]. split; [vm_compute; reflexivity|].
  eexists. split; vm_compute; reflexivity. Qed.
Print Assumptions C12_nonvacuous.
