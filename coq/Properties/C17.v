(* C17 - Elliptic-curve arithmetic, ECDH and public-point validation are correct.

   Tie: TRANSLATOR.  pj_double_with_z_1, pj_double, pj_add_with_z_1, pj_add_with_z_eq,
   pj_add_with_z2_1, pj_add_with_z_ne, pj_add, naf/naf_loop, contains_point (Gen/EcFormulas.v)
   and the 17 curve records (Gen/Curves.v) are regenerated from
   /repo/appnotes/register_crypto_plugin/ecdsa/{ellipticcurve,ecdsa,curves}.py on every
   run; the theorems below are about those definitions.  __mul__, _mul_precompute,
   _maybe_precompute, scale, x(), Public_key validation and ECDH are hand models
   (Model/Ec.v) built on the generated functions and cross-checked against the
   implementation by tools/props/C17.py.

   Specification (Model/Ec.v): congruences `eqm p`, the affine chord-and-tangent law in
   division-free form (add_rel, dbl_rel), repr (X,Y,Z) (x,y) := X == x Z^2 /\ Y == y Z^3,
   jrepr (with the library's encoding of infinity, Y = 0 or Z = 0), and the group-law
   hypothesis ec_group (an abelian group whose operation satisfies add_rel/dbl_rel and
   which has no point with y = 0).  ec_group is a HYPOTHESIS for the 17 shipped curves
   (together with primality of p, which it contains) and is PROVED by enumeration for
   the five small curves of Proofs/EcSmall.v. *)
From Coq Require Import List Bool NArith ZArith Znumtheory.
From Coq Require Import Init.Byte.
From Bec2 Require Import Base.Result Base.Bytes Base.Modp Gen.EcFormulas Gen.Curves Model.Ec
  Proofs.EcFormulaProofs Proofs.EcNafProofs Proofs.EcMulProofs Proofs.EcMulAddProofs Proofs.EcTotalProofs
  Proofs.EcdhGuardProofs Model.P256Plugin Proofs.P256PluginProofs   Proofs.EcParams
  Proofs.EcSmall Proofs.EcSmallMul Proofs.EcSmallMulAdd Proofs.EcSmallEcdh.
Import ListNotations.
Open Scope Z_scope.

(* ===================================================================== *)
(* 1. The six formula functions, every branch, for EVERY modulus p and all integers
      (unreduced and negative coordinates included).                          *)

(* _double_with_z_1: Y1 == 0 -> (0,0,1) (infinity); otherwise the tangent law *)
Theorem C17_double_with_z_1 : forall p a X1 Y1,
  (eqm p (Y1 * Y1) 0 -> pj_double_with_z_1 X1 Y1 p a = (0, 0, 1)) /\
  (forall x1 y1 x3 y3, ~ eqm p (Y1 * Y1) 0 -> repr p (X1, Y1, 1) (x1, y1) ->
     dbl_rel p a (x1, y1) (x3, y3) ->
     repr p (pj_double_with_z_1 X1 Y1 p a) (x3, y3) /\
     eqm p (jZ (pj_double_with_z_1 X1 Y1 p a)) (2 * Y1) /\
     reduced p (pj_double_with_z_1 X1 Y1 p a)).
Proof. intros. split; [apply dz1_inf | intros; eapply dz1_gen; eassumption]. Qed.
Print Assumptions C17_double_with_z_1.

(* _double: Z1 = 1 -> the z=1 formula; Y1 == 0 or Z1 = 0 -> infinity; otherwise tangent law *)
Theorem C17_double : forall p a X1 Y1 Z1,
  (pj_double X1 Y1 1 p a = pj_double_with_z_1 X1 Y1 p a) /\
  (eqm p (Y1 * Y1) 0 -> pj_double X1 Y1 Z1 p a = (0, 0, 1)) /\
  (pj_double X1 Y1 0 p a = (0, 0, 1)) /\
  (forall x1 y1 x3 y3, ~ eqm p (Y1 * Y1) 0 -> Z1 <> 0 -> repr p (X1, Y1, Z1) (x1, y1) ->
     dbl_rel p a (x1, y1) (x3, y3) ->
     repr p (pj_double X1 Y1 Z1 p a) (x3, y3) /\
     eqm p (jZ (pj_double X1 Y1 Z1 p a)) (2 * Y1 * Z1) /\
     reduced p (pj_double X1 Y1 Z1 p a)).
Proof.
  intros. split; [apply d_z1|]. split; [apply d_inf|]. split; [apply d_inf_z|].
  intros; eapply d_gen; eassumption.
Qed.
Print Assumptions C17_double.

(* _add_with_z_1 (Z1 = Z2 = 1), H = X2 - X1, r = 2 (Y2 - Y1):
   H == 0 /\ r == 0 (as CONGRUENCES) -> the doubling; otherwise the chord law, Z3 == 2 H
   and Z3 reduced (hence H == 0 /\ r =/= 0 -> Z3 = 0, infinity). *)
Theorem C17_add_with_z_1 : forall p a X1 Y1 X2 Y2,
  (eqm p (X2 - X1) 0 -> eqm p (2 * (Y2 - Y1)) 0 ->
     pj_add_with_z_1 X1 Y1 X2 Y2 p a = pj_double_with_z_1 X1 Y1 p a) /\
  (~ (eqm p (X2 - X1) 0 /\ eqm p (2 * (Y2 - Y1)) 0) ->
     (forall a1 a2 a3, repr p (X1, Y1, 1) a1 -> repr p (X2, Y2, 1) a2 -> add_rel p a1 a2 a3 ->
        repr p (pj_add_with_z_1 X1 Y1 X2 Y2 p a) a3) /\
     eqm p (jZ (pj_add_with_z_1 X1 Y1 X2 Y2 p a)) (2 * (X2 - X1)) /\
     reduced p (pj_add_with_z_1 X1 Y1 X2 Y2 p a) /\
     (eqm p (X2 - X1) 0 -> jZ (pj_add_with_z_1 X1 Y1 X2 Y2 p a) = 0)).
Proof.
  intros. split; [apply az1_dbl|]. intro NC.
  destruct (az1_z p a X1 Y1 X2 Y2 NC) as [Zf R].
  split; [intros; eapply az1_gen; eassumption|]. split; [exact Zf|]. split; [exact R|].
  intro E. apply (reduced_0 p); [apply R|]. rewrite Zf, E. apply eqm_eq. reflexivity.
Qed.
Print Assumptions C17_add_with_z_1.

(* _add_with_z_eq (Z1 = Z2) *)
Theorem C17_add_with_z_eq : forall p a X1 Y1 Z1 X2 Y2,
  (eqm p ((X2 - X1) * (X2 - X1)) 0 -> eqm p ((Y2 - Y1) * (Y2 - Y1)) 0 ->
     pj_add_with_z_eq X1 Y1 Z1 X2 Y2 p a = pj_double X1 Y1 Z1 p a) /\
  (~ (eqm p ((X2 - X1) * (X2 - X1)) 0 /\ eqm p ((Y2 - Y1) * (Y2 - Y1)) 0) ->
     (forall a1 a2 a3, repr p (X1, Y1, Z1) a1 -> repr p (X2, Y2, Z1) a2 -> add_rel p a1 a2 a3 ->
        repr p (pj_add_with_z_eq X1 Y1 Z1 X2 Y2 p a) a3) /\
     eqm p (jZ (pj_add_with_z_eq X1 Y1 Z1 X2 Y2 p a)) (Z1 * (X2 - X1)) /\
     reduced p (pj_add_with_z_eq X1 Y1 Z1 X2 Y2 p a) /\
     (eqm p (X2 - X1) 0 -> jZ (pj_add_with_z_eq X1 Y1 Z1 X2 Y2 p a) = 0)).
Proof.
  intros. split; [apply azeq_dbl|]. intro NC.
  destruct (azeq_z p a X1 Y1 Z1 X2 Y2 NC) as [Zf R].
  split; [intros; eapply azeq_gen; eassumption|]. split; [exact Zf|]. split; [exact R|].
  intro E. apply (reduced_0 p); [apply R|]. rewrite Zf, E. apply eqm_eq. ring.
Qed.
Print Assumptions C17_add_with_z_eq.

(* _add_with_z2_1 (Z2 = 1), H = X2 Z1^2 - X1, r = 2 (Y2 Z1^3 - Y1) *)
Theorem C17_add_with_z2_1 : forall p a X1 Y1 Z1 X2 Y2,
  (eqm p (X2 * (Z1 * Z1) - X1) 0 -> eqm p (2 * (Y2 * Z1 * (Z1 * Z1) - Y1)) 0 ->
     pj_add_with_z2_1 X1 Y1 Z1 X2 Y2 p a = pj_double_with_z_1 X2 Y2 p a) /\
  (~ (eqm p (X2 * (Z1 * Z1) - X1) 0 /\ eqm p (2 * (Y2 * Z1 * (Z1 * Z1) - Y1)) 0) ->
     (forall a1 a2 a3, repr p (X1, Y1, Z1) a1 -> repr p (X2, Y2, 1) a2 -> add_rel p a1 a2 a3 ->
        repr p (pj_add_with_z2_1 X1 Y1 Z1 X2 Y2 p a) a3) /\
     eqm p (jZ (pj_add_with_z2_1 X1 Y1 Z1 X2 Y2 p a)) (2 * Z1 * (X2 * (Z1 * Z1) - X1)) /\
     reduced p (pj_add_with_z2_1 X1 Y1 Z1 X2 Y2 p a) /\
     (eqm p (X2 * (Z1 * Z1) - X1) 0 -> jZ (pj_add_with_z2_1 X1 Y1 Z1 X2 Y2 p a) = 0)).
Proof.
  intros. split; [apply az21_dbl|]. intro NC.
  destruct (az21_z p a X1 Y1 Z1 X2 Y2 NC) as [Zf R].
  split; [intros; eapply az21_gen; eassumption|]. split; [exact Zf|]. split; [exact R|].
  intro E. apply (reduced_0 p); [apply R|]. rewrite Zf, E. apply eqm_eq. ring.
Qed.
Print Assumptions C17_add_with_z2_1.

(* _add_with_z_ne, H = X2 Z1^2 - X1 Z2^2, r = 2 (Y2 Z1^3 - Y1 Z2^3) *)
Theorem C17_add_with_z_ne : forall p a X1 Y1 Z1 X2 Y2 Z2,
  (eqm p (X2 * (Z1 * Z1) - X1 * (Z2 * Z2)) 0 ->
   eqm p (2 * (Y2 * Z1 * (Z1 * Z1) - Y1 * Z2 * (Z2 * Z2))) 0 ->
     pj_add_with_z_ne X1 Y1 Z1 X2 Y2 Z2 p a = pj_double X1 Y1 Z1 p a) /\
  (~ (eqm p (X2 * (Z1 * Z1) - X1 * (Z2 * Z2)) 0 /\
      eqm p (2 * (Y2 * Z1 * (Z1 * Z1) - Y1 * Z2 * (Z2 * Z2))) 0) ->
     (forall a1 a2 a3, repr p (X1, Y1, Z1) a1 -> repr p (X2, Y2, Z2) a2 -> add_rel p a1 a2 a3 ->
        repr p (pj_add_with_z_ne X1 Y1 Z1 X2 Y2 Z2 p a) a3) /\
     eqm p (jZ (pj_add_with_z_ne X1 Y1 Z1 X2 Y2 Z2 p a))
           (2 * Z1 * Z2 * (X2 * (Z1 * Z1) - X1 * (Z2 * Z2))) /\
     reduced p (pj_add_with_z_ne X1 Y1 Z1 X2 Y2 Z2 p a) /\
     (eqm p (X2 * (Z1 * Z1) - X1 * (Z2 * Z2)) 0 -> jZ (pj_add_with_z_ne X1 Y1 Z1 X2 Y2 Z2 p a) = 0)).
Proof.
  intros. split; [apply azne_dbl|]. intro NC.
  destruct (azne_z p a X1 Y1 Z1 X2 Y2 Z2 NC) as [Zf R].
  split; [intros; eapply azne_gen; eassumption|]. split; [exact Zf|]. split; [exact R|].
  intro E. apply (reduced_0 p); [apply R|]. rewrite Zf, E. apply eqm_eq. ring.
Qed.
Print Assumptions C17_add_with_z_ne.

(* _add: which formula is selected (tests on integers) *)
Theorem C17_dispatch_select : forall p a X1 Y1 Z1 X2 Y2 Z2,
  ((Y1 = 0 \/ Z1 = 0) -> pj_add X1 Y1 Z1 X2 Y2 Z2 p a = (X2, Y2, Z2)) /\
  (Y1 <> 0 -> Z1 <> 0 -> (Y2 = 0 \/ Z2 = 0) -> pj_add X1 Y1 Z1 X2 Y2 Z2 p a = (X1, Y1, Z1)) /\
  (Y1 <> 0 -> Z1 <> 0 -> Y2 <> 0 -> Z2 <> 0 ->
     (Z1 = 1 -> Z2 = 1 -> pj_add X1 Y1 Z1 X2 Y2 Z2 p a = pj_add_with_z_1 X1 Y1 X2 Y2 p a) /\
     (Z1 = Z2 -> Z1 <> 1 -> pj_add X1 Y1 Z1 X2 Y2 Z2 p a = pj_add_with_z_eq X1 Y1 Z1 X2 Y2 p a) /\
     (Z1 = 1 -> Z2 <> 1 -> pj_add X1 Y1 Z1 X2 Y2 Z2 p a = pj_add_with_z2_1 X2 Y2 Z2 X1 Y1 p a) /\
     (Z1 <> 1 -> Z2 = 1 -> pj_add X1 Y1 Z1 X2 Y2 Z2 p a = pj_add_with_z2_1 X1 Y1 Z1 X2 Y2 p a) /\
     (Z1 <> Z2 -> Z1 <> 1 -> Z2 <> 1 ->
        pj_add X1 Y1 Z1 X2 Y2 Z2 p a = pj_add_with_z_ne X1 Y1 Z1 X2 Y2 Z2 p a)).
Proof. exact add_dispatch. Qed.
Print Assumptions C17_dispatch_select.

(* ===================================================================== *)
(* 2. Against the group law (hypothesis ec_group: p prime, chord-and-tangent group
      without 2-torsion).  Every representation of the operands, incl. infinity,
      equal and inverse operands.                                            *)

(* _add = group addition (C17_dispatch: the selected formula's precondition holds) *)
Theorem C17_dispatch : forall p a inG gadd gneg, ec_group p a inG gadd gneg ->
  forall X1 Y1 Z1 X2 Y2 Z2 P1 P2, inG P1 -> inG P2 ->
  jrepr p (X1, Y1, Z1) P1 -> jrepr p (X2, Y2, Z2) P2 ->
  jrepr p (pj_add X1 Y1 Z1 X2 Y2 Z2 p a) (gadd P1 P2).
Proof. exact add_correct. Qed.
Print Assumptions C17_dispatch.

Theorem C17_double_correct : forall p a inG gadd gneg, ec_group p a inG gadd gneg ->
  forall X Y Zc P, inG P -> jrepr p (X, Y, Zc) P ->
  jrepr p (pj_double X Y Zc p a) (gadd P P).
Proof. exact double_correct. Qed.
Print Assumptions C17_double_correct.

Theorem C17_neg_correct : forall p a inG gadd gneg, ec_group p a inG gadd gneg ->
  forall X Y Zc P, inG P -> jrepr p (X, Y, Zc) P -> jrepr p (X, - Y, Zc) (gneg P).
Proof. exact neg_correct. Qed.
Print Assumptions C17_neg_correct.

(* the result does not depend on the projective representation of the operands, and
   two results are equal in the sense of PointJacobi.__eq__ *)
Theorem C17_repr_indep : forall p a inG gadd gneg, ec_group p a inG gadd gneg ->
  forall X1 Y1 Z1 X2 Y2 Z2 X1' Y1' Z1' X2' Y2' Z2' P1 P2, inG P1 -> inG P2 ->
  jrepr p (X1, Y1, Z1) P1 -> jrepr p (X1', Y1', Z1') P1 ->
  jrepr p (X2, Y2, Z2) P2 -> jrepr p (X2', Y2', Z2') P2 ->
  let R := pj_add X1 Y1 Z1 X2 Y2 Z2 p a in
  let R' := pj_add X1' Y1' Z1' X2' Y2' Z2' p a in
  jrepr p R (gadd P1 P2) /\ jrepr p R' (gadd P1 P2) /\
  (gadd P1 P2 <> None -> jac_eq p R R').
Proof.
  intros p a inG gadd gneg GH X1 Y1 Z1 X2 Y2 Z2 X1' Y1' Z1' X2' Y2' Z2' P1 P2 G1 G2 J1 J1' J2 J2' R R'.
  pose proof (add_correct p a inG gadd gneg GH _ _ _ _ _ _ _ _ G1 G2 J1 J2) as A.
  pose proof (add_correct p a inG gadd gneg GH _ _ _ _ _ _ _ _ G1 G2 J1' J2') as B.
  split; [exact A|]. split; [exact B|]. intro Hfin.
  fold R in A. fold R' in B. destruct (gadd P1 P2) as [q|]; [|contradiction].
  destruct R as [[a1 b1] c1], R' as [[a2 b2] c2]. destruct A as [_ A], B as [_ B].
  exact (repr_jac_eq p _ _ q A B).
Qed.
Print Assumptions C17_repr_indep.

(* PointJacobi.__eq__ (hand model) decides exactly that relation *)
Theorem C17_eq : forall p P Q, pj_eqb p P Q = true <-> jac_eq p P Q.
Proof. exact pj_eqb_spec. Qed.
Print Assumptions C17_eq.

(* NAF: for all k >= 0 the generated loop terminates within its fuel; sum d_i 2^i = k,
   digits in {-1,0,1}, non-adjacent, top digit 1, length <= log2 k + 2 *)
Theorem C17_naf : forall k, 0 <= k ->
  exists l, naf k = Ok l /\ digits_value l = k /\ Forall digit_ok l /\ non_adjacent l /\
            (0 < k -> last l 0 = 1) /\ (Z.of_nat (length l) <= Z.log2 k + 2).
Proof. exact naf_correct. Qed.
Print Assumptions C17_naf.

(* __mul__ (NAF path and the precomputed-table path _mul_precompute incl. the table
   built by _maybe_precompute, order reduction mod 2n, k = 0, k = 1, infinite operand):
   the value the model returns (it does return: C17_mul_total) represents k*Q;
   None (INFINITY) iff k*Q = 0. *)
Theorem C17_mul : forall p a inG gadd gneg, ec_group p a inG gadd gneg ->
  forall J Q ord gen k r, inG Q -> jrepr p J Q ->
  (ord = 0 \/ (0 < ord /\ zmul gadd gneg ord Q = None)) ->
  (gen = true -> Q <> None) -> 0 <= k ->
  pj_mul p a ord gen J k = Ok r ->
  jrepr_opt p r (zmul gadd gneg k Q).
Proof. exact mul_correct. Qed.
Print Assumptions C17_mul.

(* mul_add: k1*Q1 + k2*Q2 (Shamir's trick over two NAFs, the four precomputed
   combinations, the fall-back to two separate multiplications, order reduction) *)
Theorem C17_mul_add : forall p a inG gadd gneg, ec_group p a inG gadd gneg ->
  forall J1 Q1 ord1 gen1 k1 J2 Q2 ord2 gen2 k2 r, inG Q1 -> inG Q2 ->
  jrepr p J1 Q1 -> jrepr p J2 Q2 ->
  (ord1 = 0 \/ (0 < ord1 /\ zmul gadd gneg ord1 Q1 = None /\ zmul gadd gneg ord1 Q2 = None)) ->
  (ord2 = 0 \/ (0 < ord2 /\ zmul gadd gneg ord2 Q2 = None)) ->
  (gen1 = true -> Q1 <> None) -> (gen2 = true -> Q2 <> None) ->
  0 <= k1 -> 0 <= k2 ->
  pj_mul_add p a ord1 gen1 J1 k1 ord2 gen2 J2 k2 = Ok r ->
  jrepr_opt p r (gadd (zmul gadd gneg k1 Q1) (zmul gadd gneg k2 Q2)).
Proof. exact mul_add_correct. Qed.
Print Assumptions C17_mul_add.

(* scale(), inverse_mod: whenever they return, the value is right (they do return: see the
   totality theorems below) *)
Theorem C17_inverse_mod : forall m z i, inverse_mod z m = Ok i -> z <> 0 -> eqm m (i * z) 1.
Proof. exact inverse_mod_spec. Qed.
Print Assumptions C17_inverse_mod.

Theorem C17_scale : forall p a inG gadd gneg, ec_group p a inG gadd gneg ->
  forall J Q J', jrepr p J Q -> pj_scale p J = Ok J' ->
  jrepr p J' Q /\ (Q <> None -> jZ J' = 1) /\ (xred p J -> xred p J').
Proof. exact scale_correct. Qed.
Print Assumptions C17_scale.

(* ECDH: both parties obtain the same secret (or both INFINITY -> InvalidSharedSecretError);
   it is the x-coordinate of (d1 d2) G, reduced. *)
Theorem C17_ecdh : forall p a inG gadd gneg, ec_group p a inG gadd gneg ->
  forall G JG n d1 d2 Q1 Q2 r1 r2,
  inG G -> G <> None -> jrepr p JG G -> 0 < n -> zmul gadd gneg n G = None -> 0 <= d1 -> 0 <= d2 ->
  pubkey_of p a n JG d1 = Ok (Some Q1) -> pubkey_of p a n JG d2 = Ok (Some Q2) ->
  0 <= fst Q1 < p -> 0 <= fst Q2 < p ->
  ecdh_shared p a (fst Q2, snd Q2, 1) d1 = Ok r1 ->
  ecdh_shared p a (fst Q1, snd Q1, 1) d2 = Ok r2 ->
  r1 = r2.
Proof. exact ecdh_agree. Qed.
Print Assumptions C17_ecdh.

Theorem C17_ecdh_value : forall p a inG gadd gneg, ec_group p a inG gadd gneg ->
  forall Q JQ d r, inG Q -> jrepr p JQ Q -> xred p JQ -> 0 <= d ->
  ecdh_shared p a JQ d = Ok r ->
  match zmul gadd gneg d Q with
  | None => r = None
  | Some (sx, _) => exists v, r = Some v /\ eqm p v sx /\ v mod p = v
  end.
Proof. exact ecdh_shared_correct. Qed.
Print Assumptions C17_ecdh_value.

(* The guards of ECDH._get_shared_secret (hand model ecdh_get_shared; no hypothesis): a
   secret is produced ONLY when a private key and a public key are loaded and private
   key, ECDH object and received public key are on one curve (Curve.__eq__: same p, a and b
   equal mod p, equal generators); then it is ecdh_shared of that point and scalar.  A
   missing key is NoKeyError, any curve mismatch (or no curve) InvalidCurveError. *)
Theorem C17_ecdh_guard : forall cur priv pub s,
  ecdh_get_shared cur priv pub = Ok (Secret s) ->
  exists c cpriv d cpub Q,
    cur = Some c /\ priv = Some (cpriv, d) /\ pub = Some (cpub, Q) /\
    curve_eqb cpriv c = true /\ curve_eqb c cpub = true /\
    c_p cpriv = c_p c /\ c_p c = c_p cpub /\
    eqm (c_p c) (c_a cpriv) (c_a c) /\ eqm (c_p c) (c_a c) (c_a cpub) /\
    eqm (c_p c) (c_b cpriv) (c_b c) /\ eqm (c_p c) (c_b c) (c_b cpub) /\
    ecdh_shared (c_p cpub) (c_a cpub) Q d = Ok (Some s).
Proof. exact ecdh_guard. Qed.
Print Assumptions C17_ecdh_guard.

Theorem C17_ecdh_guard_errors : forall cur priv pub,
  (priv = None \/ pub = None -> ecdh_get_shared cur priv pub = Ok NoKeyError) /\
  (forall cpriv d cpub Q, priv = Some (cpriv, d) -> pub = Some (cpub, Q) ->
     (cur = None \/ exists c, cur = Some c /\ (curve_eqb cpriv c = false \/ curve_eqb c cpub = false)) ->
     ecdh_get_shared cur priv pub = Ok InvalidCurveError).
Proof. exact ecdh_guard_errors. Qed.
Print Assumptions C17_ecdh_guard_errors.

(* Totality: under the same hypothesis the models return (no fuel exhaustion of the extended
   Euclid / table / NAF loops, no inverse failure), so the theorems above are not vacuous:
   2^j * Q <> 0 is what "odd (prime) order" gives for a finite generator Q. *)
Theorem C17_inverse_mod_total : forall m z, prime m -> ~ eqm m z 0 -> exists i, inverse_mod z m = Ok i.
Proof. exact inverse_mod_total. Qed.
Print Assumptions C17_inverse_mod_total.

Theorem C17_mul_total : forall p a inG gadd gneg, ec_group p a inG gadd gneg ->
  forall J Q ord gen k, inG Q -> jrepr p J Q -> 0 <= k -> 0 <= ord ->
  (gen = true -> 0 < ord /\ forall j, 0 <= j -> zmul gadd gneg (2 ^ j) Q <> None) ->
  exists r, pj_mul p a ord gen J k = Ok r.
Proof. exact mul_total. Qed.
Print Assumptions C17_mul_total.

Theorem C17_mul_add_total : forall p a inG gadd gneg, ec_group p a inG gadd gneg ->
  forall J1 Q1 ord1 gen1 k1 J2 Q2 ord2 gen2 k2,
  inG Q1 -> inG Q2 -> jrepr p J1 Q1 -> jrepr p J2 Q2 -> wfz p J1 -> wfz p J2 ->
  0 <= k1 -> 0 <= k2 -> 0 <= ord1 -> 0 <= ord2 ->
  (gen1 = true -> 0 < ord1 /\ forall j, 0 <= j -> zmul gadd gneg (2 ^ j) Q1 <> None) ->
  (gen2 = true -> 0 < ord2 /\ forall j, 0 <= j -> zmul gadd gneg (2 ^ j) Q2 <> None) ->
  exists r, pj_mul_add p a ord1 gen1 J1 k1 ord2 gen2 J2 k2 = Ok r.
Proof. exact mul_add_total. Qed.
Print Assumptions C17_mul_add_total.

Theorem C17_ecdh_total : forall p a inG gadd gneg, ec_group p a inG gadd gneg ->
  (forall G JG n d, inG G -> jrepr p JG G -> 0 < n -> zmul gadd gneg n G = None -> 0 <= d ->
     (forall j, 0 <= j -> zmul gadd gneg (2 ^ j) G <> None) ->
     exists r, pubkey_of p a n JG d = Ok r) /\
  (forall Q JQ d, inG Q -> jrepr p JQ Q -> 0 <= d -> exists r, ecdh_shared p a JQ d = Ok r).
Proof. intros p a inG gadd gneg GH. split; [exact (pubkey_of_total _ _ _ _ _ GH) | exact (ecdh_shared_total _ _ _ _ _ GH)]. Qed.
Print Assumptions C17_ecdh_total.

(* ===================================================================== *)
(* 3. Curve membership, public-point validation, the 17 parameter sets (no hypothesis) *)

Theorem C17_contains_point : forall p a b x y,
  contains_point x y p a b = true <-> on_curve p a b (x, y).
Proof. exact contains_point_spec. Qed.
Print Assumptions C17_contains_point.

(* cofactor 1 (16 of the 17 curves): accepted <-> 0 <= x,y < p and on the curve *)
Theorem C17_validation : forall p a b n x y, n <> 0 ->
  (pubkey_valid p a b n 1 true x y = Ok true <->
   0 <= x < p /\ 0 <= y < p /\ on_curve p a b (x, y)).
Proof. exact pubkey_valid_h1_iff. Qed.
Print Assumptions C17_validation.

(* any cofactor: accepted -> in range and on the curve *)
Theorem C17_validation_sound : forall p a b n h x y,
  pubkey_valid p a b n h true x y = Ok true ->
  0 <= x < p /\ 0 <= y < p /\ on_curve p a b (x, y) /\ n <> 0.
Proof. exact pubkey_valid_sound. Qed.
Print Assumptions C17_validation_sound.

(* out of range or off the curve (incl. points of another curve) -> rejected, any cofactor *)
Theorem C17_validation_rejects : forall p a b n h x y,
  (~ (0 <= x < p) \/ ~ (0 <= y < p) \/ ~ on_curve p a b (x, y)) ->
  pubkey_valid p a b n h true x y = Ok false.
Proof. exact pubkey_valid_rejects. Qed.
Print Assumptions C17_validation_rejects.

(* the all-zero point (how infinity would be encoded) is rejected on all 17 curves *)
Theorem C17_validation_origin : forall c n h, In c curves ->
  pubkey_valid (c_p c) (c_a c) (c_b c) n h true 0 0 = Ok false.
Proof. exact origin_rejected. Qed.
Print Assumptions C17_validation_origin.

Theorem C17_params : length curves = 17%nat /\ forall c, In c curves ->
  3 < c_p c /\
  0 <= c_Gx c < c_p c /\ 0 < c_Gy c < c_p c /\
  on_curve (c_p c) (c_a c) (c_b c) (c_Gx c, c_Gy c) /\
  ~ eqm (c_p c) (4 * c_a c * c_a c * c_a c + 27 * c_b c * c_b c) 0 /\
  ~ eqm (c_p c) (c_b c) 0 /\
  1 < c_n c /\ Z.odd (c_n c) = true /\ 0 < c_h c /\
  (c_n c * c_h c - (c_p c + 1)) * (c_n c * c_h c - (c_p c + 1)) <= 4 * c_p c.
Proof. split; [exact curves_count | exact params_spec]. Qed.
Print Assumptions C17_params.

(* n * G = INFINITY, computed with the model of __mul__.  PARTIAL: only SECP112r1 is
   evaluated inside Coq (the thorough tier re-checks every proof with coqchk, which has no
   bytecode VM: one 112-bit multiplication costs it a minute, a 256-bit one ten); the search
   checks n*G on the implementation for all 17 curves. *)
Theorem C17_order_partial : order_check SECP112r1 = true.
Proof. exact order_SECP112r1. Qed.
Print Assumptions C17_order_partial.

(* ===================================================================== *)
(* 3b. The registered ECC plug-in of the BEC2 layer (NIST256p) in the shape Model/Bec2.v
   abstracts (Model/P256Plugin.v): the three facts Proofs/Bec2Proofs.v assumes (C02, C09),
   for ALL byte strings d, e, under the named hypotheses for P-256: the group law
   (ec_group), G in the group, n*G = 0, k*G <> 0 for 0 < k < n, group points on the curve. *)
Theorem C17_p256_plugin_pub_len : forall d, blen (p256_pub_of d) = 64%N.
Proof. exact pub_len_all. Qed.
Print Assumptions C17_p256_plugin_pub_len.

Theorem C17_p256_plugin_pub_valid : forall inG gadd gneg,
  ec_group p256_p p256_a inG gadd gneg -> inG p256_Gpt ->
  zmul gadd gneg p256_n p256_Gpt = None ->
  (forall k, 0 < k < p256_n -> zmul gadd gneg k p256_Gpt <> None) ->
  (forall q, inG (Some q) -> on_curve p256_p p256_a p256_b q) ->
  forall d, p256_valid_pub (p256_pub_of d) = true.
Proof. exact p256_pub_valid. Qed.
Print Assumptions C17_p256_plugin_pub_valid.

Theorem C17_p256_plugin_ecdh_comm : forall inG gadd gneg,
  ec_group p256_p p256_a inG gadd gneg -> inG p256_Gpt ->
  zmul gadd gneg p256_n p256_Gpt = None ->
  (forall k, 0 < k < p256_n -> zmul gadd gneg k p256_Gpt <> None) ->
  (forall q, inG (Some q) -> on_curve p256_p p256_a p256_b q) ->
  forall d e, p256_ecdh d (p256_pub_of e) = p256_ecdh e (p256_pub_of d).
Proof. exact p256_ecdh_comm. Qed.
Print Assumptions C17_p256_plugin_ecdh_comm.

(* byte strings that are admissible keys (1 <= value <= n-1, the only ones the plug-in ever
   holds) are read as their value; everything else is folded into that range *)
Theorem C17_p256_plugin_scalar : forall d,
  1 <= scalar_of d <= p256_n - 1 /\ (scalar_ok d -> scalar_of d = scalar_raw d).
Proof. intro d. split; [apply scalar_range | apply scalar_of_ok]. Qed.
Print Assumptions C17_p256_plugin_scalar.

(* rejection clause (no hypothesis): wrong length, a coordinate >= p, off the curve, all zero *)
Theorem C17_p256_plugin_rejects : forall raw,
  (blen raw <> 64%N \/ p256_p <= raw_x raw \/ p256_p <= raw_y raw \/
   ~ on_curve p256_p p256_a p256_b (raw_x raw, raw_y raw)) ->
  p256_valid_pub raw = false.
Proof. exact valid_pub_rejects. Qed.
Print Assumptions C17_p256_plugin_rejects.

Theorem C17_p256_plugin_accept_sound : forall raw, p256_valid_pub raw = true ->
  blen raw = 64%N /\ 0 <= raw_x raw < p256_p /\ 0 <= raw_y raw < p256_p /\
  on_curve p256_p p256_a p256_b (raw_x raw, raw_y raw).
Proof. exact valid_pub_sound. Qed.
Print Assumptions C17_p256_plugin_accept_sound.

Theorem C17_p256_plugin_zero : p256_valid_pub (zeros 64) = false.
Proof. exact valid_pub_zero. Qed.
Print Assumptions C17_p256_plugin_zero.

(* ===================================================================== *)
(* 4. Small prime-order curves: everything closed, no hypothesis *)

Theorem C17_small_group : forall c, In c small_curves ->
  ec_group (s_p c) (s_a c) (fun P => In P (s_pts c)) (aff_add (s_p c) (s_a c)) (aff_neg (s_p c)) /\
  Z.of_nat (length (s_pts c)) = s_n c /\ prime (s_n c).
Proof. exact small_group. Qed.
Print Assumptions C17_small_group.

Theorem C17_small_add : forall c, In c small_curves ->
  forall X1 Y1 Z1 X2 Y2 Z2 P1 P2, In P1 (s_pts c) -> In P2 (s_pts c) ->
  jrepr (s_p c) (X1, Y1, Z1) P1 -> jrepr (s_p c) (X2, Y2, Z2) P2 ->
  jrepr (s_p c) (pj_add X1 Y1 Z1 X2 Y2 Z2 (s_p c) (s_a c)) (aff_add (s_p c) (s_a c) P1 P2).
Proof. exact small_add_correct. Qed.
Print Assumptions C17_small_add.

Theorem C17_small_mul : forall c, In c small_curves ->
  forall J Q ord gen k r, In Q (s_pts c) -> jrepr (s_p c) J Q ->
  (ord = 0 \/ (0 < ord /\ zmul (aff_add (s_p c) (s_a c)) (aff_neg (s_p c)) ord Q = None)) ->
  (gen = true -> Q <> None) -> 0 <= k ->
  pj_mul (s_p c) (s_a c) ord gen J k = Ok r ->
  jrepr_opt (s_p c) r (zmul (aff_add (s_p c) (s_a c)) (aff_neg (s_p c)) k Q).
Proof. exact small_mul_correct. Qed.
Print Assumptions C17_small_mul.

Theorem C17_small_ecdh : forall c, In c small_curves ->
  forall G JG n d1 d2 Q1 Q2 r1 r2,
  In G (s_pts c) -> G <> None -> jrepr (s_p c) JG G -> 0 < n ->
  zmul (aff_add (s_p c) (s_a c)) (aff_neg (s_p c)) n G = None -> 0 <= d1 -> 0 <= d2 ->
  pubkey_of (s_p c) (s_a c) n JG d1 = Ok (Some Q1) -> pubkey_of (s_p c) (s_a c) n JG d2 = Ok (Some Q2) ->
  0 <= fst Q1 < s_p c -> 0 <= fst Q2 < s_p c ->
  ecdh_shared (s_p c) (s_a c) (fst Q2, snd Q2, 1) d1 = Ok r1 ->
  ecdh_shared (s_p c) (s_a c) (fst Q1, snd Q1, 1) d2 = Ok r2 ->
  r1 = r2.
Proof. exact small_ecdh_agree. Qed.
Print Assumptions C17_small_ecdh.

(* complete enumerations with the executable models on the smallest curves (orders 5, 7, 11;
   mul_add: 5, 7): every pair of points x 4 representations each (Z = 1, 2, p-1,
   unreduced/negative) resp. 3 encodings of infinity; scalars 0..3n with and without
   order / generator table; mul_add; ECDH for all pairs of private keys.  (Bounded by the
   VM-less re-check of coqchk; the search enumerates twelve curves on the implementation.) *)
Theorem C17_small_enum :
  forallb enum_add enum_curves = true /\ forallb enum_mul enum_curves = true /\
  forallb enum_mul_add (firstn 2 small_curves) = true /\ forallb enum_ecdh enum_curves = true.
Proof. exact (conj small_enum_add (conj small_enum_mul (conj small_enum_mul_add small_enum_ecdh))). Qed.
Print Assumptions C17_small_enum.

(* the hypotheses are satisfiable: the order-5 curve y^2 = x^3 + x + 1 over F_7 with
   G = (0,1) in the representation (0*4, 1*8, 2); 3*G computed through the generator
   table (the case that returned INFINITY before `H % p` was added to _add_with_z_1) *)
Example C17_nonvacuous :
  In (mkSmall 7 1 1 5) small_curves /\ In (Some (0, 1)) (s_pts (mkSmall 7 1 1 5)) /\
  jrepr 7 (0, 8, 2) (Some (0, 1)) /\
  pj_mul 7 1 5 true (0, 1, 1) 3 = Ok (Some (1, 5, 5)) /\
  pj_to_affine 7 (1, 5, 5) = Ok (nmul (aff_add 7 1) 3 (Some (0, 1))).
Proof.
  split; [left; reflexivity|]. split; [vm_compute; tauto|].
  split; [|split; vm_compute; reflexivity].
  split; [apply (eqm_small_nz 7 2); split; reflexivity|].
  split; apply eqm_def; reflexivity.
Qed.
Print Assumptions C17_nonvacuous.

(* ===================================================================== *)
(* 6. Capstone for the BEC2 layer (Proofs/Capstone.v): the round-trip theorem of C02 and the
   ECIES recovery theorem of C09 with every plug-in instantiated by the models of the bundled
   code - pyaes (C16) and the P-256 plug-in above.  What remains abstract: sha256 and the
   random sources; what remains assumed, by name: the group laws of P-256. *)
From Bec2 Require Import Gen.Consts Model.Cbc Model.Bf3 Model.AesContainer Model.Bec2 Model.Aes
  Proofs.Bf3TextProofs Proofs.Bec2Proofs Proofs.EccBlockProofs Proofs.Capstone.

Theorem C17_bec2_roundtrip_capstone : forall inG gadd gneg,
  ec_group p256_p p256_a inG gadd gneg -> inG p256_Gpt ->
  zmul gadd gneg p256_n p256_Gpt = None ->
  (forall k, (0 < k < p256_n)%Z -> zmul gadd gneg k p256_Gpt <> None) ->
  (forall q, inG (Some q) -> on_curve p256_p p256_a p256_b q) ->
  forall sha256 keygen rand16 f bs key encs decs nk t nk' check nr,
    blen key = 16%N -> wf_file f -> bs <> [] ->
    NoDup (map fst bs) -> all_match p256_pub_of bs encs decs ->
    bec2_write_file (adapter_encrypt aes_E) (adapter_mac aes_E) sha256 p256_pub_of p256_ecdh keygen (mkBec2 f bs key) encs nk = Ok (t, nk') ->
    bec2_read_file (adapter_decrypt aes_D) (adapter_mac aes_E) sha256 p256_valid_pub p256_ecdh rand16 t decs check nr =
      Ok (mkBec2 (file_view f) bs key, nr).
Proof.
  intros inG gadd gneg H1 H2 H3 H4 H5 sha256 keygen rand16.
  exact (bec2_roundtrip_bundled inG gadd gneg H1 H2 H3 H4 H5 sha256 keygen rand16).
Qed.
Print Assumptions C17_bec2_roundtrip_capstone.

Theorem C17_ecies_recover_capstone : forall inG gadd gneg,
  ec_group p256_p p256_a inG gadd gneg -> inG p256_Gpt ->
  zmul gadd gneg p256_n p256_Gpt = None ->
  (forall k, (0 < k < p256_n)%Z -> zmul gadd gneg k p256_Gpt <> None) ->
  (forall q, inG (Some q) -> on_curve p256_p p256_a p256_b q) ->
  forall sha256 keygen sel key exts nk raw nk' s d pr,
    blen key = 16%N ->
    select_encryptor KEcc exts
      (match default_pub sel with Some p => Some (EEcc sel p None) | None => None end) (ecc_sel_is sel)
      = Ok (EEcc s (p256_pub_of d) pr) ->
    pack (adapter_encrypt aes_E) sha256 p256_pub_of p256_ecdh keygen (ABEcc sel) key exts nk = Ok (raw, nk') ->
    ecies_recipient (adapter_decrypt aes_D) sha256 p256_ecdh d raw = Ok (sel, key).
Proof.
  intros inG gadd gneg H1 H2 H3 H4 H5 sha256 keygen.
  exact (ecies_recovers_bundled inG gadd gneg H1 H2 H3 H4 H5 sha256 keygen).
Qed.
Print Assumptions C17_ecies_recover_capstone.

(* invalid ephemeral points are refused by the BEC2 reader over the P-256 plug-in model: no hypothesis *)
Theorem C17_reject_point_capstone : forall (D : bytes -> bytes -> bytes) sha256 sel s pub d tp ct decs,
  blen tp = 64%N ->
  ((p256_p <= raw_x tp)%Z \/ (p256_p <= raw_y tp)%Z \/ ~ on_curve p256_p p256_a p256_b (raw_x tp, raw_y tp)) ->
  select_encryptor KEcc decs None (ecc_sel_is (b2n sel)) = Ok (EEcc s pub (Some d)) ->
  Model.Bec2.unpack (adapter_decrypt D) sha256 p256_valid_pub p256_ecdh TAG_ECC (sel :: x04 :: tp ++ ct) decs = Err EValue.
Proof.
  intros D sha256 sel s pub d tp ct decs Hl Hbad Hs.
  apply (invalid_point_refused (adapter_decrypt D) sha256 p256_valid_pub p256_ecdh sel s pub d tp ct decs Hl).
  - apply valid_pub_rejects. right. exact Hbad.
  - exact Hs.
Qed.
Print Assumptions C17_reject_point_capstone.

(* ===================================================================== *)
(* 7. The AFFINE class `Point` - the second representation ("regardless of the internal
   representation").  Tie: TRANSLATOR for the arithmetic of Point.__add__, Point.double and
   Point.__neg__ (Gen/EcAffine.v: ap_add_same_x, ap_add_opposite, ap_add_den, ap_add_xy,
   ap_double_den, ap_double_xy, ap_neg_xy, regenerated on every run); hand models
   (Model/EcAffine.v) for Point.__init__, __eq__, the loop of __mul__/__rmul__ and the
   mixed operations PointJacobi.__eq__/__add__ with an affine operand, from_affine,
   to_affine, cross-checked by tools/props/C17.py.
   An affine object is `option (Z * Z)` (None = INFINITY); `arepr p R Q`: R denotes the
   group element Q (both INFINITY, or coordinates congruent); `xcan`: x reduced (what the
   integer test `self.__x == other.__x` needs; every result has it); `canon`: x and y reduced. *)
From Bec2 Require Import Gen.EcAffine Model.EcAffine Proofs.EcAffineProofs Proofs.EcSmallAffine.

(* 7a. EVERY modulus, all integers (no primality, no group): the results satisfy the
   division-free relations of the specification; INFINITY is the identity; P + (-P) = INFINITY *)
Theorem C17_affine_add_rel : forall p a b,
  (forall Q, ap_add p a b None Q = Ok Q) /\
  (forall P, ap_add p a b P None = Ok P) /\
  (forall x y1 y2, eqm p (y1 + y2) 0 -> ap_add p a b (Some (x, y1)) (Some (x, y2)) = Ok None) /\
  (forall x y1 y2, ~ eqm p (y1 + y2) 0 ->
     ap_add p a b (Some (x, y1)) (Some (x, y2)) = ap_double p a b (Some (x, y1))) /\
  (forall x1 y1 x2 y2 R, x1 <> x2 -> ap_add p a b (Some (x1, y1)) (Some (x2, y2)) = Ok R ->
     exists a3, R = Some a3 /\ add_rel p (x1, y1) (x2, y2) a3 /\ on_curve p a b a3 /\ canon p R).
Proof. exact affine_add_rel. Qed.
Print Assumptions C17_affine_add_rel.

Theorem C17_affine_double_rel : forall p a b,
  ap_double p a b None = Ok None /\
  (forall x y R, y <> 0 -> ap_double p a b (Some (x, y)) = Ok R ->
     exists a3, R = Some a3 /\ dbl_rel p a (x, y) a3 /\ on_curve p a b a3 /\ canon p R).
Proof. exact affine_double_rel. Qed.
Print Assumptions C17_affine_double_rel.

Theorem C17_affine_neg_rel : forall p a b q q', ap_neg p a b q = Ok q' ->
  fst q' = fst q /\ snd q' = p - snd q /\ eqm p (snd q') (- snd q) /\ on_curve p a b q' /\
  ap_add p a b (Some q) (Some q') = Ok None.
Proof. exact affine_neg_rel. Qed.
Print Assumptions C17_affine_neg_rel.

(* the `order` assertion of Point.__init__ (`assert self * order == INFINITY`, made when the
   cofactor is not 1) can never fail: __mul__ returns INFINITY at its first test because
   order % order == 0.  The constructor therefore checks curve membership only. *)
Theorem C17_affine_init : forall p a b h ord q, ap_init p a b h ord q = ap_new p a b q.
Proof. exact ap_init_order_vacuous. Qed.
Print Assumptions C17_affine_init.

(* 7b. against the group law.  First half of each statement: whatever is returned is right;
   second half: with the group points on the curve (p, a, b) nothing is raised. *)
Theorem C17_affine_add : forall p a b inG gadd gneg, ec_group p a inG gadd gneg ->
  forall P1 P2 Q1 Q2, inG Q1 -> inG Q2 -> arepr p P1 Q1 -> arepr p P2 Q2 -> xcan p P1 -> xcan p P2 ->
  (forall R, ap_add p a b P1 P2 = Ok R -> arepr p R (gadd Q1 Q2) /\ xcan p R) /\
  ((forall q, inG (Some q) -> on_curve p a b q) -> exists R, ap_add p a b P1 P2 = Ok R).
Proof. exact affine_add_group. Qed.
Print Assumptions C17_affine_add.

Theorem C17_affine_double : forall p a b inG gadd gneg, ec_group p a inG gadd gneg ->
  forall P Q, inG Q -> arepr p P Q ->
  (forall R, ap_double p a b P = Ok R -> arepr p R (gadd Q Q) /\ canon p R) /\
  ((forall q, inG (Some q) -> on_curve p a b q) -> exists R, ap_double p a b P = Ok R).
Proof. exact affine_double_group. Qed.
Print Assumptions C17_affine_double.

Theorem C17_affine_neg : forall p a b inG gadd gneg, ec_group p a inG gadd gneg ->
  forall q Q, inG Q -> arepr p (Some q) Q ->
  (forall q', ap_neg p a b q = Ok q' -> arepr p (Some q') (gneg Q) /\ fst q' = fst q) /\
  ((forall q, inG (Some q) -> on_curve p a b q) -> exists q', ap_neg p a b q = Ok q').
Proof. exact affine_neg_group. Qed.
Print Assumptions C17_affine_neg.

(* Point.__mul__ = Point.__rmul__: EVERY integer k - k = 0, multiples of the order attribute
   (ord = 0 stands for None), k beyond the order (the class does not reduce k), negative k
   (through (-self) * (-k)), INFINITY - any cofactor flag h.  Proved by the loop invariant
   "before bit j is processed the accumulator denotes (3k >> (j+1)) - (k >> (j+1)) times Q"
   (Proofs/EcAffineProofs.v: mul_loop_correct). *)
Theorem C17_affine_mul : forall p a b inG gadd gneg, ec_group p a inG gadd gneg ->
  forall h ord P Q k, inG Q -> arepr p P Q -> xcan p P ->
  ((ord = 0 \/ zmul gadd gneg ord Q = None) ->
   forall R, ap_mul p a b h ord P k = Ok R -> arepr p R (zmul gadd gneg k Q) /\ xcan p R) /\
  ((forall q, inG (Some q) -> on_curve p a b q) -> exists R, ap_mul p a b h ord P k = Ok R).
Proof. exact affine_mul_group. Qed.
Print Assumptions C17_affine_mul.

(* "the result has reduced coordinates" is FALSE in general: PARTIAL - it holds whenever
   k*Q <> -Q; otherwise __mul__ may return its temporary negative_self = (x, -y) *)
Theorem C17_affine_mul_canonical_partial : forall p a b inG gadd gneg, ec_group p a inG gadd gneg ->
  forall h ord q Q k R, inG Q -> arepr p (Some q) Q -> canon p (Some q) ->
  (ord = 0 \/ zmul gadd gneg ord Q = None) -> 0 <= k ->
  zmul gadd gneg k Q <> gneg Q ->
  ap_mul p a b h ord (Some q) k = Ok R -> canon p R.
Proof. exact mul_canonical_aff. Qed.
Print Assumptions C17_affine_mul_canonical_partial.

(* witness: order-5 curve y^2 = x^3 + x + 1 over F_7, G = (0, 1): 19*G is returned as (0, -1),
   4*G as (0, 6); both denote -G, but Point.__eq__ (integer comparison) calls them different *)
Example C17_affine_mul_canonical_refuted :
  In (mkSmall 7 1 1 5) small_curves /\ In (Some (0, 1)) (s_pts (mkSmall 7 1 1 5)) /\
  ap_mul 7 1 1 1 0 (Some (0, 1)) 19 = Ok (Some (0, -1)) /\ ~ canon 7 (Some (0, -1)) /\
  ap_mul 7 1 1 1 5 (Some (0, 1)) 19 = Ok (Some (0, -1)) /\
  ap_mul 7 1 1 1 0 (Some (0, 1)) 4 = Ok (Some (0, 6)) /\
  ap_eqb (Some (0, -1)) (Some (0, 6)) = false.
Proof.
  split; [left; reflexivity|]. split; [vm_compute; tauto|].
  split; [vm_compute; reflexivity|]. split; [intros [_ H]; vm_compute in H; discriminate H|].
  split; [vm_compute; reflexivity|]. split; vm_compute; reflexivity.
Qed.
Print Assumptions C17_affine_mul_canonical_refuted.

(* __eq__: Point.__eq__ is equality of the stored integers, hence decides "same group element"
   on reduced objects; PointJacobi.__eq__ with an affine operand (and its reflection
   Point == PointJacobi) decides it for every projective representation *)
Theorem C17_affine_eq : forall p a inG gadd gneg, ec_group p a inG gadd gneg ->
  (forall P Q : apt, ap_eqb P Q = true <-> P = Q) /\
  (forall P1 P2 Q1 Q2, inG Q1 -> inG Q2 -> arepr p P1 Q1 -> arepr p P2 Q2 -> canon p P1 -> canon p P2 ->
     (ap_eqb P1 P2 = true <-> Q1 = Q2)) /\
  (forall J A Q1 Q2, inG Q1 -> inG Q2 -> jrepr p J Q1 -> arepr p A Q2 -> (Q1 <> None \/ A = None) ->
     (pj_eq_aff p J A = true <-> Q1 = Q2)).
Proof. exact affine_eq_group. Qed.
Print Assumptions C17_affine_eq.

(* PointJacobi.__add__ with an affine operand (from_affine, then the Jacobian addition) *)
Theorem C17_affine_mixed_add : forall p a inG gadd gneg, ec_group p a inG gadd gneg ->
  forall J A Q1 Q2, inG Q1 -> inG Q2 -> jrepr p J Q1 -> arepr p A Q2 ->
  jrepr_opt p (pj_add_aff p a J A) (gadd Q1 Q2).
Proof. exact add_mixed_correct. Qed.
Print Assumptions C17_affine_mixed_add.

(* the two representations agree: P * k by the affine class and from_affine(P) * k by
   PointJacobi denote the same group element k*Q; the library's mixed __eq__ calls the two
   results equal; to_affine() of the Jacobian result has congruent coordinates *)
Theorem C17_affine_jacobi_agree : forall p a b inG gadd gneg, ec_group p a inG gadd gneg ->
  forall h ord q Q k rJ rA, inG Q -> arepr p (Some q) Q -> xcan p (Some q) ->
  (ord = 0 \/ (0 < ord /\ zmul gadd gneg ord Q = None)) -> 0 <= k ->
  pj_mul p a ord false (pj_from_affine q) k = Ok rJ ->
  ap_mul p a b h ord (Some q) k = Ok rA ->
  jrepr_opt p rJ (zmul gadd gneg k Q) /\ arepr p rA (zmul gadd gneg k Q) /\
  pj_opt_eq_aff p rJ rA = true /\
  (forall A1, pj_opt_to_affine p rJ = Ok A1 -> apt_eqm p A1 rA).
Proof. exact affine_jacobi_agree. Qed.
Print Assumptions C17_affine_jacobi_agree.

(* 7c. closed on the small prime-order curves (no hypothesis; no exception) *)
Theorem C17_affine_small_add : forall c, In c small_curves ->
  forall P Q, In P (s_pts c) -> In Q (s_pts c) ->
  ap_add (s_p c) (s_a c) (s_b c) P Q = Ok (aff_add (s_p c) (s_a c) P Q).
Proof. exact small_affine_add. Qed.
Print Assumptions C17_affine_small_add.

Theorem C17_affine_small_double : forall c, In c small_curves ->
  forall P, In P (s_pts c) -> ap_double (s_p c) (s_a c) (s_b c) P = Ok (aff_add (s_p c) (s_a c) P P).
Proof. exact small_affine_double. Qed.
Print Assumptions C17_affine_small_double.

Theorem C17_affine_small_neg : forall c, In c small_curves ->
  forall q, In (Some q) (s_pts c) ->
  exists q', ap_neg (s_p c) (s_a c) (s_b c) q = Ok q' /\ Some q' = aff_neg (s_p c) (Some q).
Proof. exact small_affine_neg. Qed.
Print Assumptions C17_affine_small_neg.

Theorem C17_affine_small_mul : forall c, In c small_curves ->
  forall P h ord k, In P (s_pts c) ->
  (ord = 0 \/ zmul (aff_add (s_p c) (s_a c)) (aff_neg (s_p c)) ord P = None) ->
  exists R, ap_mul (s_p c) (s_a c) (s_b c) h ord P k = Ok R /\
            arepr (s_p c) R (zmul (aff_add (s_p c) (s_a c)) (aff_neg (s_p c)) k P).
Proof. exact small_affine_mul. Qed.
Print Assumptions C17_affine_small_mul.

Theorem C17_affine_small_mul_exact : forall c, In c small_curves ->
  forall q h ord k R, In (Some q) (s_pts c) ->
  (ord = 0 \/ zmul (aff_add (s_p c) (s_a c)) (aff_neg (s_p c)) ord (Some q) = None) -> 0 <= k ->
  zmul (aff_add (s_p c) (s_a c)) (aff_neg (s_p c)) k (Some q) <> aff_neg (s_p c) (Some q) ->
  ap_mul (s_p c) (s_a c) (s_b c) h ord (Some q) k = Ok R ->
  R = zmul (aff_add (s_p c) (s_a c)) (aff_neg (s_p c)) k (Some q).
Proof. exact small_affine_mul_exact. Qed.
Print Assumptions C17_affine_small_mul_exact.

Theorem C17_affine_small_jacobi_agree : forall c, In c small_curves ->
  forall q h ord k rJ rA, In (Some q) (s_pts c) ->
  (ord = 0 \/ (0 < ord /\ zmul (aff_add (s_p c) (s_a c)) (aff_neg (s_p c)) ord (Some q) = None)) -> 0 <= k ->
  pj_mul (s_p c) (s_a c) ord false (pj_from_affine q) k = Ok rJ ->
  ap_mul (s_p c) (s_a c) (s_b c) h ord (Some q) k = Ok rA ->
  jrepr_opt (s_p c) rJ (zmul (aff_add (s_p c) (s_a c)) (aff_neg (s_p c)) k (Some q)) /\
  arepr (s_p c) rA (zmul (aff_add (s_p c) (s_a c)) (aff_neg (s_p c)) k (Some q)) /\
  pj_opt_eq_aff (s_p c) rJ rA = true /\
  (forall A1, pj_opt_to_affine (s_p c) rJ = Ok A1 -> apt_eqm (s_p c) A1 rA).
Proof. exact small_affine_jacobi_agree. Qed.
Print Assumptions C17_affine_small_jacobi_agree.

(* the hypotheses are satisfiable and the models compute: order-5 curve over F_7, G = (0, 1)
   with order attribute 5: 3*G by the affine class, by PointJacobi.from_affine(G) * 3 and its
   to_affine(), the mixed __eq__, a negative scalar, a multiple of the order *)
Example C17_affine_nonvacuous :
  In (mkSmall 7 1 1 5) small_curves /\ In (Some (0, 1)) (s_pts (mkSmall 7 1 1 5)) /\
  arepr 7 (Some (0, 1)) (Some (0, 1)) /\ xcan 7 (Some (0, 1)) /\
  zmul (aff_add 7 1) (aff_neg 7) 5 (Some (0, 1)) = None /\
  ap_init 7 1 1 1 5 (0, 1) = Ok (0, 1) /\
  ap_mul 7 1 1 1 5 (Some (0, 1)) 3 = Ok (Some (2, 2)) /\
  zmul (aff_add 7 1) (aff_neg 7) 3 (Some (0, 1)) = Some (2, 2) /\
  pj_mul 7 1 5 false (pj_from_affine (0, 1)) 3 = Ok (Some (1, 5, 5)) /\
  pj_opt_eq_aff 7 (Some (1, 5, 5)) (Some (2, 2)) = true /\
  ap_mul_via_jacobi 7 1 5 (0, 1) 3 = Ok (Some (2, 2)) /\
  ap_mul 7 1 1 1 5 (Some (0, 1)) (-3) = Ok (Some (2, 5)) /\
  ap_mul 7 1 1 1 5 (Some (0, 1)) 10 = Ok None /\
  ap_add 7 1 1 (Some (0, 1)) (Some (0, 6)) = Ok None /\
  ap_add 7 1 1 (Some (0, 1)) (Some (7, 1)) = Err EValue.
Proof.
  split; [left; reflexivity|]. split; [vm_compute; tauto|].
  split; [split; reflexivity|]. split; [reflexivity|].
  repeat (split; [vm_compute; reflexivity|]). vm_compute; reflexivity.
Qed.
Print Assumptions C17_affine_nonvacuous.

(* ===================================================================== *)
(* 8. The group law itself (Proofs/EcLaw.v, EcLawCerts.v, EcLawFast.v, EcLawCurves.v).

   Sections 2-7 assume `ec_group`.  Here it is PROVED: for every prime p > 2 and every
   non-singular short-Weierstrass curve over Z_p the chord-and-tangent addition on the reduced
   points of the curve (ec_wf) is associative - every degenerate configuration included -, hence
   the multiples of any base point of odd order form an `ec_group` for the executable affine
   addition aff_add.  The computational part (polynomial identities with several thousand terms)
   is checked by `ring` from certificates computed offline (tools/offline/eclaw_certs.py); the
   hypothesis n * G = infinity is discharged for shipped curves by a closed double-and-add
   computation over the GENERATED constants (curves_checked: SECP112r1, SECP112r2, SECP128r1 and
   the plug-in curve NIST256p).  What is left as hypothesis is primality of p (and of n where the
   exact order of G is needed); Properties/C19.v certifies those primes (Pocklington). *)
From Bec2 Require Import Proofs.EcLaw Proofs.EcLawFast Proofs.EcLawCurves.

Theorem C17_group_closed : forall p a b P Q, prime p -> 2 < p ->
  ec_wf p a b P -> ec_wf p a b Q -> ec_wf p a b (ec_add p a P Q).
Proof. intros p a b P Q. exact (EcLaw_L1_ec_add_wf p a b P Q). Qed.
Print Assumptions C17_group_closed.

Theorem C17_group_assoc : forall p a b P Q R, prime p -> 2 < p ->
  ~ eqm p (4 * a * a * a + 27 * b * b) 0 ->
  ec_wf p a b P -> ec_wf p a b Q -> ec_wf p a b R ->
  ec_add p a (ec_add p a P Q) R = ec_add p a P (ec_add p a Q R).
Proof. intros p a b P Q R. exact (EcLaw_L5_assoc p a b P Q R). Qed.
Print Assumptions C17_group_assoc.

(* ec_add is aff_add except for the doubling of a point with y == 0 (where aff_add's
   x^(p-2) "inverse" of 0 gives a point off the curve and ec_add gives infinity) *)
Theorem C17_group_ec_add_is_aff_add : forall p a x1 y1 x2 y2,
  ~ eqm p x1 x2 \/ ~ eqm p y1 y2 \/ ~ eqm p y1 0 ->
  ec_add p a (Some (x1, y1)) (Some (x2, y2)) = aff_add p a (Some (x1, y1)) (Some (x2, y2)).
Proof. intros p a x1 y1 x2 y2. exact (EcLaw_L1_ec_add_eq_aff_add p a x1 y1 x2 y2). Qed.
Print Assumptions C17_group_ec_add_is_aff_add.

Theorem C17_group_generated : forall p a b gx gy n,
  prime p -> 2 < p -> ~ eqm p (4 * a * a * a + 27 * b * b) 0 ->
  0 <= gx < p -> 0 <= gy < p -> on_curve p a b (gx, gy) ->
  0 < n -> Z.odd n = true -> zmul (aff_add p a) (aff_neg p) n (Some (gx, gy)) = None ->
  ec_group p a (fun P => exists k : nat, P = nmul (aff_add p a) k (Some (gx, gy)))
           (aff_add p a) (aff_neg p).
Proof. intros p a b gx gy n. exact (EcLaw_L5_group_generated p a b gx gy n). Qed.
Print Assumptions C17_group_generated.

(* the group-law hypothesis of sections 2-7 for shipped curves: only primality is assumed *)
Theorem C17_group_shipped : forall c, In c curves_checked -> prime (c_p c) ->
  let p := c_p c in let a := c_a c in let G := Some (c_Gx c, c_Gy c) in
  let inG := fun P : pt => exists k : nat, P = nmul (aff_add p a) k G in
  ec_group p a inG (aff_add p a) (aff_neg p) /\
  inG G /\
  zmul (aff_add p a) (aff_neg p) (c_n c) G = None /\
  (forall q, inG (Some q) -> on_curve p a (c_b c) q) /\
  (prime (c_n c) -> forall k, 0 < k < c_n c -> zmul (aff_add p a) (aff_neg p) k G <> None).
Proof. exact EcLawCurves_group_full. Qed.
Print Assumptions C17_group_shipped.

Example C17_group_shipped_covers : In NIST256p curves_checked /\ incl curves_checked curves.
Proof. split; [exact p256_checked | exact curves_checked_incl]. Qed.

(* the plug-in facts of section 3b and the capstones of section 6 with NO group-law hypothesis *)
Theorem C17_p256_pub_valid_closed : prime p256_p -> prime p256_n ->
  forall d, p256_valid_pub (p256_pub_of d) = true.
Proof. exact EcLawCurves_p256_pub_valid. Qed.
Print Assumptions C17_p256_pub_valid_closed.

Theorem C17_p256_ecdh_comm_closed : prime p256_p -> prime p256_n ->
  forall d e, p256_ecdh d (p256_pub_of e) = p256_ecdh e (p256_pub_of d).
Proof. exact EcLawCurves_p256_ecdh_comm. Qed.
Print Assumptions C17_p256_ecdh_comm_closed.

Theorem C17_bec2_roundtrip_p256 : prime p256_p -> prime p256_n ->
  forall sha256 keygen rand16 f bs key encs decs nk t nk' check nr,
    blen key = 16%N -> wf_file f -> bs <> [] ->
    NoDup (map fst bs) -> all_match p256_pub_of bs encs decs ->
    bec2_write_file (adapter_encrypt aes_E) (adapter_mac aes_E) sha256 p256_pub_of p256_ecdh keygen (mkBec2 f bs key) encs nk = Ok (t, nk') ->
    bec2_read_file (adapter_decrypt aes_D) (adapter_mac aes_E) sha256 p256_valid_pub p256_ecdh rand16 t decs check nr =
      Ok (mkBec2 (file_view f) bs key, nr).
Proof.
  intros Hp Hn. destruct (EcLawCurves_p256 Hp) as [GH GI].
  destruct (EcLawCurves_p256_facts Hp) as (H3 & H4 & H5).
  exact (C17_bec2_roundtrip_capstone _ _ _ GH GI H3 (H5 Hn) H4).
Qed.
Print Assumptions C17_bec2_roundtrip_p256.

Theorem C17_ecies_recover_p256 : prime p256_p -> prime p256_n ->
  forall sha256 keygen sel key exts nk raw nk' s d pr,
    blen key = 16%N ->
    select_encryptor KEcc exts
      (match default_pub sel with Some p => Some (EEcc sel p None) | None => None end) (ecc_sel_is sel)
      = Ok (EEcc s (p256_pub_of d) pr) ->
    pack (adapter_encrypt aes_E) sha256 p256_pub_of p256_ecdh keygen (ABEcc sel) key exts nk = Ok (raw, nk') ->
    ecies_recipient (adapter_decrypt aes_D) sha256 p256_ecdh d raw = Ok (sel, key).
Proof.
  intros Hp Hn. destruct (EcLawCurves_p256 Hp) as [GH GI].
  destruct (EcLawCurves_p256_facts Hp) as (H3 & H4 & H5).
  exact (C17_ecies_recover_capstone _ _ _ GH GI H3 (H5 Hn) H4).
Qed.
Print Assumptions C17_ecies_recover_p256.

(* ===================================================================== *)
(* 9. NIST P-256 (the curve of the registered ECC plug-in) with NO hypothesis at all: primality
   of p and n comes from Pocklington certificates (Proofs/Pocklington.v: checker + soundness,
   Proofs/PrimeCertsP256.v: the certificates, Proofs/P256Primes.v: lookup of the GENERATED
   constants), the group law from section 8. *)
From Bec2 Require Import Proofs.P256Primes.

Theorem C17_p256_primes : prime p256_p /\ prime p256_n.
Proof. split; [exact p256_p_prime | exact p256_n_prime]. Qed.
Print Assumptions C17_p256_primes.

Theorem C17_p256_group :
  ec_group p256_p p256_a
    (fun P => exists k : nat, P = nmul (aff_add p256_p p256_a) k p256_Gpt)
    (aff_add p256_p p256_a) (aff_neg p256_p) /\
  zmul (aff_add p256_p p256_a) (aff_neg p256_p) p256_n p256_Gpt = None /\
  (forall k, 0 < k < p256_n -> zmul (aff_add p256_p p256_a) (aff_neg p256_p) k p256_Gpt <> None).
Proof.
  destruct (EcLawCurves_p256 p256_p_prime) as [GH _].
  destruct (EcLawCurves_p256_facts p256_p_prime) as (H3 & _ & H5).
  split; [exact GH | split; [exact H3 | exact (H5 p256_n_prime)]].
Qed.
Print Assumptions C17_p256_group.

Theorem C17_p256_pub_valid_unconditional : forall d, p256_valid_pub (p256_pub_of d) = true.
Proof. exact (C17_p256_pub_valid_closed p256_p_prime p256_n_prime). Qed.
Print Assumptions C17_p256_pub_valid_unconditional.

(* both parties of the plug-in's key agreement obtain the same secret, for ALL byte strings d, e *)
Theorem C17_p256_ecdh_comm_unconditional : forall d e,
  p256_ecdh d (p256_pub_of e) = p256_ecdh e (p256_pub_of d).
Proof. exact (C17_p256_ecdh_comm_closed p256_p_prime p256_n_prime). Qed.
Print Assumptions C17_p256_ecdh_comm_unconditional.

(* C02 over the bundled AES and the P-256 plug-in model: nothing assumed about AES, the curve
   or the primes (sha256 and the random sources stay oracle arguments) *)
Theorem C17_bec2_roundtrip_p256_unconditional :
  forall sha256 keygen rand16 f bs key encs decs nk t nk' check nr,
    blen key = 16%N -> wf_file f -> bs <> [] ->
    NoDup (map fst bs) -> all_match p256_pub_of bs encs decs ->
    bec2_write_file (adapter_encrypt aes_E) (adapter_mac aes_E) sha256 p256_pub_of p256_ecdh keygen (mkBec2 f bs key) encs nk = Ok (t, nk') ->
    bec2_read_file (adapter_decrypt aes_D) (adapter_mac aes_E) sha256 p256_valid_pub p256_ecdh rand16 t decs check nr =
      Ok (mkBec2 (file_view f) bs key, nr).
Proof. exact (C17_bec2_roundtrip_p256 p256_p_prime p256_n_prime). Qed.
Print Assumptions C17_bec2_roundtrip_p256_unconditional.

(* C09: the spec-side ECIES recipient recovers the session key of every ECC block *)
Theorem C17_ecies_recover_p256_unconditional :
  forall sha256 keygen sel key exts nk raw nk' s d pr,
    blen key = 16%N ->
    select_encryptor KEcc exts
      (match default_pub sel with Some p => Some (EEcc sel p None) | None => None end) (ecc_sel_is sel)
      = Ok (EEcc s (p256_pub_of d) pr) ->
    pack (adapter_encrypt aes_E) sha256 p256_pub_of p256_ecdh keygen (ABEcc sel) key exts nk = Ok (raw, nk') ->
    ecies_recipient (adapter_decrypt aes_D) sha256 p256_ecdh d raw = Ok (sel, key).
Proof. exact (C17_ecies_recover_p256 p256_p_prime p256_n_prime). Qed.
Print Assumptions C17_ecies_recover_p256_unconditional.
