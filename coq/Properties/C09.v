(* C09 - ECC auth block is decryptable by an independent ECIES implementation.
   Model: Model/Bec2.v (ECC plug-in abstract: pub_of, valid_pub, ecdh, keygen).
   The recipient side of the theorems is an ECIES decryptor written from the
   property text (Proofs/EccBlockProofs.v: ecies_recipient), not the library's reader.
   Not provable (external oracle, run by the search when an openssl binary exists):
   agreement with OpenSSL.  Hypothesis named: ECDH commutes (C17). *)
From Coq Require Import List NArith ZArith.
From Coq Require Import Init.Byte.
From Bec2 Require Import Base.Result Base.Bytes Base.Reader Gen.Consts Model.Cbc Model.Bf3 Model.AesContainer
  Model.Bec2 Model.Bec2Eq Proofs.CbcProofs Proofs.Bec2Proofs Proofs.EccBlockProofs.
Import ListNotations.
Open Scope N_scope.

Section C09.
  Variable E D : bytes -> bytes -> bytes.
  Hypothesis E_len : forall k b, length b = 16%nat -> length (E k b) = 16%nat.
  Hypothesis DE : forall k b, length b = 16%nat -> D k (E k b) = b.
  Variable sha256 : bytes -> bytes.
  Variable pub_of : privkey -> bytes.
  Variable valid_pub : bytes -> bool.
  Variable ecdh : privkey -> bytes -> bytes.
  Variable keygen : N -> privkey.
  Hypothesis pub_len : forall d, blen (pub_of d) = 64.
  Hypothesis ecdh_comm : forall d e, ecdh d (pub_of e) = ecdh e (pub_of d).

  Let enc := adapter_encrypt E.
  Let dec := adapter_decrypt D.

  Lemma c9_enc_len : forall k d c, blen d mod 16 = 0 -> enc k None d = Ok c -> blen c = blen d.
  Proof. intros k d c Hm He. exact (proj2 (adapter_inverse E D E_len DE k None d c Hm He)). Qed.
  Lemma c9_dec_enc : forall k d c, blen d mod 16 = 0 -> enc k None d = Ok c -> dec k None c = Ok d.
  Proof. intros k d c Hm He. exact (proj1 (adapter_inverse E D E_len DE k None d c Hm He)). Qed.

  (* block = selector, 0x04, the freshly generated ephemeral public point, the session key
     encrypted (zero IV) under SHA-256(ECDH(ephemeral, recipient))[:16] *)
  Theorem C09_layout : forall sel key exts nk raw nk' s pub pr,
    select_encryptor KEcc exts
      (match default_pub sel with Some p => Some (EEcc sel p None) | None => None end) (ecc_sel_is sel)
      = Ok (EEcc s pub pr) ->
    pack enc sha256 pub_of ecdh keygen (ABEcc sel) key exts nk = Ok (raw, nk') ->
    sel < 256 /\ nk' = nk + 1 /\
    exists ct, raw = [n2b sel] ++ [x04] ++ pub_of (keygen nk) ++ ct /\
               enc (takeN 16 (sha256 (ecdh (keygen nk) pub))) None key = Ok ct.
  Proof. exact (ecc_block_layout enc sha256 pub_of ecdh keygen). Qed.

  (* the holder of the recipient's private key recovers exactly the session key (any 16 bytes) *)
  Theorem C09_recover : forall sel key exts nk raw nk' s d pr,
    blen key = 16 ->
    select_encryptor KEcc exts
      (match default_pub sel with Some p => Some (EEcc sel p None) | None => None end) (ecc_sel_is sel)
      = Ok (EEcc s (pub_of d) pr) ->
    pack enc sha256 pub_of ecdh keygen (ABEcc sel) key exts nk = Ok (raw, nk') ->
    ecies_recipient dec sha256 ecdh d raw = Ok (sel, key).
  Proof. exact (ecies_recovers enc dec sha256 pub_of ecdh keygen c9_enc_len c9_dec_enc pub_len ecdh_comm). Qed.

  (* unwrapping refuses an ephemeral point the plug-in's validation does not accept *)
  Theorem C09_reject_invalid_point : forall sel s pub d tp ct decs,
    blen tp = 64 -> valid_pub tp = false ->
    select_encryptor KEcc decs None (ecc_sel_is (b2n sel)) = Ok (EEcc s pub (Some d)) ->
    unpack dec sha256 valid_pub ecdh TAG_ECC (sel :: x04 :: tp ++ ct) decs = Err EValue.
  Proof. exact (invalid_point_refused dec sha256 valid_pub ecdh). Qed.
End C09.
Print Assumptions C09_layout.
Print Assumptions C09_recover.
Print Assumptions C09_reject_invalid_point.

(* without an explicit recipient the block goes to the published key of ITS OWN selector;
   the published constants (generated from bec2file.py) are header ++ 64-byte point *)
Theorem C09_default_recipient : forall sel, sel < 4 ->
  exists der, In (sel, der) DEFAULT_PUBLIC_KEYS /\ der = der_header ++ dropN der_header_len der /\
    default_pub sel = Some (dropN der_header_len der) /\ blen (dropN der_header_len der) = 64 /\
    select_encryptor KEcc [] (match default_pub sel with Some p => Some (EEcc sel p None) | None => None end)
      (ecc_sel_is sel) = Ok (EEcc sel (dropN der_header_len der) None).
Proof. exact default_recipient. Qed.
Print Assumptions C09_default_recipient.

Theorem C09_header27 : blen der_header = 27 /\ der_header_len = 27.
Proof. exact header_is_27. Qed.
Print Assumptions C09_header27.

(* non-vacuity with the toy plug-ins: the spec-side recipient opens a packed block *)
Definition c9_sha (x : bytes) : bytes := x ++ zeros 32.
Definition c9_d : privkey := toy_keygen 17.
Example C09_nonvacuous :
  (let* (raw, _) := pack (adapter_encrypt toyE) c9_sha toy_pub_of toy_ecdh toy_keygen (ABEcc 2)
                      (H 16 0x00112233445566778899AABBCCDD0000) [EEcc 2 (toy_pub_of c9_d) None] 5 in
   ecies_recipient (adapter_decrypt toyD) c9_sha toy_ecdh c9_d raw)
  = Ok (2, H 16 0x00112233445566778899AABBCCDD0000).
Proof. vm_compute. reflexivity. Qed.
Print Assumptions C09_nonvacuous.
