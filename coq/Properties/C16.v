(* C16 - Bundled AES equals FIPS-197/SP 800-38A and the adapter is a pure zero-padded CBC. *)
From Coq Require Import List NArith ZArith.
From Coq Require Import Init.Byte.
From Bec2 Require Import Base.Result Base.Bytes Gen.AesTables Model.Cbc Model.AesSpec Model.Aes Model.AesModes
  Proofs.AesTablesProofs.
Import ListNotations.
Open Scope N_scope.

Theorem C16_tables_sbox : forall x, x < 256 ->
  tbl S_tbl x = sbox x /\ tbl Si_tbl (sbox x) = x /\ tbl S_tbl (tbl Si_tbl x) = x /\
  tbl Si_tbl x = inv_sbox x /\ sbox x < 256 /\ inv_sbox x < 256.
Proof. exact sbox_tables. Qed.
Print Assumptions C16_tables_sbox.
