(* C16 - Bundled AES equals FIPS-197/SP 800-38A and the adapter is a pure zero-padded CBC.

   Specification written from the standards: Model/AesSpec.v (validated against the FIPS-197
   appendix A/B/C and SP 800-38A appendix F vectors in Proofs/AesSpecVectors.v).
   Tables: Gen/AesTables.v, regenerated from pyaes/aes.py on every run.
   Model of the code: Model/Aes.v (block cipher), Model/AesModes.v (modes, Counter, block
   feeder, PKCS7, AES128Proxy), Model/Cbc.v (zero-padded CBC used by the container layer). *)
From Coq Require Import List Bool NArith ZArith.
From Coq Require Import Init.Byte.
From Bec2 Require Import Base.Result Base.Bytes Gen.AesTables Model.Cbc Model.AesSpec Model.Aes Model.AesModes
  Proofs.CbcProofs Proofs.AesTablesProofs Proofs.AesSpecVectors Proofs.AesSpecProofs Proofs.AesProofs
  Proofs.AesKeyProofs Proofs.AesModesProofs Proofs.AesStdProofs.
Import ListNotations.
Open Scope N_scope.

(* ---- 1. the fourteen tables, entry by entry, against the GF(2^8) definitions ---------- *)

Theorem C16_tables_lengths :
  Forall (fun t => length t = 256%nat)
    [S_tbl; Si_tbl; T1_tbl; T2_tbl; T3_tbl; T4_tbl; T5_tbl; T6_tbl; T7_tbl; T8_tbl; U1_tbl; U2_tbl; U3_tbl; U4_tbl].
Proof. exact table_lengths. Qed.
Print Assumptions C16_tables_lengths.

(* S[x] = affine(x^254), Si is its inverse *)
Theorem C16_tables_sbox : forall x, x < 256 ->
  tbl S_tbl x = sbox x /\ tbl Si_tbl (sbox x) = x /\ tbl S_tbl (tbl Si_tbl x) = x /\
  tbl Si_tbl x = inv_sbox x /\ sbox x < 256 /\ inv_sbox x < 256.
Proof. exact sbox_tables. Qed.
Print Assumptions C16_tables_sbox.

(* T1..T4 = (2s, s, s, 3s) and its byte rotations, s = S[x] *)
Theorem C16_tables_enc : forall x, x < 256 ->
  let s := sbox x in
  tbl T1_tbl x = pack4 (gmul 2 s) s s (gmul 3 s) /\
  tbl T2_tbl x = pack4 (gmul 3 s) (gmul 2 s) s s /\
  tbl T3_tbl x = pack4 s (gmul 3 s) (gmul 2 s) s /\
  tbl T4_tbl x = pack4 s s (gmul 3 s) (gmul 2 s).
Proof. exact enc_tables. Qed.
Print Assumptions C16_tables_enc.

(* T5..T8 = (14s, 9s, 13s, 11s) and its byte rotations, s = Si[x] *)
Theorem C16_tables_dec : forall x, x < 256 ->
  let s := inv_sbox x in
  tbl T5_tbl x = pack4 (gmul 14 s) (gmul 9 s) (gmul 13 s) (gmul 11 s) /\
  tbl T6_tbl x = pack4 (gmul 11 s) (gmul 14 s) (gmul 9 s) (gmul 13 s) /\
  tbl T7_tbl x = pack4 (gmul 13 s) (gmul 11 s) (gmul 14 s) (gmul 9 s) /\
  tbl T8_tbl x = pack4 (gmul 9 s) (gmul 13 s) (gmul 11 s) (gmul 14 s).
Proof. exact dec_tables. Qed.
Print Assumptions C16_tables_dec.

(* U1..U4 = (14x, 9x, 13x, 11x) and its byte rotations *)
Theorem C16_tables_key : forall x, x < 256 ->
  tbl U1_tbl x = pack4 (gmul 14 x) (gmul 9 x) (gmul 13 x) (gmul 11 x) /\
  tbl U2_tbl x = pack4 (gmul 11 x) (gmul 14 x) (gmul 9 x) (gmul 13 x) /\
  tbl U3_tbl x = pack4 (gmul 13 x) (gmul 11 x) (gmul 14 x) (gmul 9 x) /\
  tbl U4_tbl x = pack4 (gmul 9 x) (gmul 13 x) (gmul 11 x) (gmul 14 x).
Proof. exact key_tables. Qed.
Print Assumptions C16_tables_key.

(* all fourteen tables at once *)
Theorem C16_tables : forall x, x < 256 ->
  let s := sbox x in let si := inv_sbox x in
  tbl S_tbl x = s /\ tbl Si_tbl x = si /\ tbl Si_tbl s = x /\
  tbl T1_tbl x = pack4 (gmul 2 s) s s (gmul 3 s) /\ tbl T2_tbl x = pack4 (gmul 3 s) (gmul 2 s) s s /\
  tbl T3_tbl x = pack4 s (gmul 3 s) (gmul 2 s) s /\ tbl T4_tbl x = pack4 s s (gmul 3 s) (gmul 2 s) /\
  tbl T5_tbl x = pack4 (gmul 14 si) (gmul 9 si) (gmul 13 si) (gmul 11 si) /\
  tbl T6_tbl x = pack4 (gmul 11 si) (gmul 14 si) (gmul 9 si) (gmul 13 si) /\
  tbl T7_tbl x = pack4 (gmul 13 si) (gmul 11 si) (gmul 14 si) (gmul 9 si) /\
  tbl T8_tbl x = pack4 (gmul 9 si) (gmul 13 si) (gmul 11 si) (gmul 14 si) /\
  tbl U1_tbl x = pack4 (gmul 14 x) (gmul 9 x) (gmul 13 x) (gmul 11 x) /\
  tbl U2_tbl x = pack4 (gmul 11 x) (gmul 14 x) (gmul 9 x) (gmul 13 x) /\
  tbl U3_tbl x = pack4 (gmul 13 x) (gmul 11 x) (gmul 14 x) (gmul 9 x) /\
  tbl U4_tbl x = pack4 (gmul 9 x) (gmul 13 x) (gmul 11 x) (gmul 14 x).
Proof.
  intros x Hx. cbv zeta.
  destruct (sbox_tables x Hx) as (A1 & A2 & _ & A4 & _).
  destruct (enc_tables x Hx) as (B1 & B2 & B3 & B4).
  destruct (dec_tables x Hx) as (C1 & C2 & C3 & C4).
  destruct (key_tables x Hx) as (D1 & D2 & D3 & D4).
  repeat (split; [assumption|]). assumption.
Qed.
Print Assumptions C16_tables.

Theorem C16_tables_rcon :
  (10 <= length rcon_tbl)%nat /\ forall i, (i < length rcon_tbl)%nat -> nth i rcon_tbl 0 = xpow i.
Proof. exact rcon_table. Qed.
Print Assumptions C16_tables_rcon.

Theorem C16_tables_rounds : forall n, In n [16; 24; 32] ->
  exists r, find (fun p => fst p =? n) number_of_rounds_tbl = Some (n, r) /\ r = n / 4 + 6.
Proof. exact number_of_rounds_table. Qed.
Print Assumptions C16_tables_rounds.

(* ---- 4./5. the block cipher ------------------------------------------------------------ *)

(* InvCipher (FIPS-197 5.3) inverts Cipher (5.1), and the equivalent inverse cipher (5.3.5)
   is the inverse cipher, for every sequence of round keys and every state *)
Theorem C16_spec_inverse : forall ks s,
  InvCipher_rk ks (Cipher_rk ks s) = s /\ EqInvCipher_rk ks s = InvCipher_rk ks s.
Proof. intros ks s. split; [apply InvCipher_Cipher | apply EqInvCipher_rk_eq]. Qed.
Print Assumptions C16_spec_inverse.

(* AES(key).encrypt / decrypt of the model = Cipher / InvCipher of FIPS-197 (key schedule of
   5.2 included), for all keys of 16/24/32 bytes and all 16-byte blocks; the equivalent inverse
   cipher that pyaes implements (Kd through U1..U4) is the inverse cipher *)
Theorem C16_block_eq_spec : forall k b, key_ok k = true -> length b = 16%nat ->
  aes_encrypt_block k b = Ok (Cipher k b) /\
  aes_decrypt_block k b = Ok (InvCipher k b) /\
  InvCipher k b = EqInvCipher k b.
Proof. exact aes_block_eq_spec. Qed.
Print Assumptions C16_block_eq_spec.

(* the total block functions used by the rest of the development are FIPS-197 Cipher / InvCipher *)
Theorem C16_aes_E_spec : forall k b, key_ok k = true -> length b = 16%nat ->
  aes_E k b = Cipher k b /\ aes_D k b = InvCipher k b.
Proof. exact aes_E_spec. Qed.
Print Assumptions C16_aes_E_spec.

(* the key schedule alone: the rows of Ke are the round keys of KeyExpansion *)
Theorem C16_key_schedule : forall k, key_ok k = true ->
  Forall2 wst (expand_Ke k) (round_keys (KeyExpansion k)).
Proof. exact key_schedule_spec. Qed.
Print Assumptions C16_key_schedule.

(* decryption inverts encryption for every key and block; 16-byte blocks stay 16 bytes *)
Theorem C16_inverse : forall k b,
  aes_D k (aes_E k b) = b /\ length (aes_E k b) = length b /\ length (aes_D k b) = length b.
Proof. intros k b. split; [apply aes_DE_total|]. split; [apply aes_E_length | apply aes_D_length]. Qed.
Print Assumptions C16_inverse.

Theorem C16_block_functions : forall k b, key_ok k = true -> length b = 16%nat ->
  aes_encrypt_block k b = Ok (aes_E k b) /\ aes_decrypt_block k b = Ok (aes_D k b).
Proof. intros k b Hk Hb. split; [apply aes_E_block | apply aes_D_block]; assumption. Qed.
Print Assumptions C16_block_functions.

(* ---- 2. feeders: every split into chunks gives what the whole input gives ---------------- *)

(* Encrypter / Decrypter over a fresh mode object, for every mode (ECB, CBC, CFB with any
   segment size, OFB, CTR), direction, padding option, key, iv and initial counter: the
   concatenation of what feed(chunk) returns for the chunks in order, followed by feed(), equals
   what the same feeder returns for the whole input in one chunk (errors included).
   Stated for every block function that maps 16-byte blocks to 16-byte blocks. *)
Theorem C16_feeder_split : forall (E D : bytes -> bytes -> bytes),
  (forall k b, length b = 16%nat -> length (E k b) = 16%nat) ->
  forall m d pad k iv ctr chunks,
  stream_crypt E D m d pad k iv ctr chunks = stream_crypt E D m d pad k iv ctr [concat chunks].
Proof. intros E D HE m d pad k iv ctr chunks. apply stream_crypt_split, HE. Qed.
Print Assumptions C16_feeder_split.

Theorem C16_feeder_split_aes : forall m d pad k iv ctr chunks,
  stream_crypt aes_E aes_D m d pad k iv ctr chunks = stream_crypt aes_E aes_D m d pad k iv ctr [concat chunks].
Proof. intros. apply stream_crypt_split. exact aes_E_len. Qed.
Print Assumptions C16_feeder_split_aes.

(* encrypt_stream / decrypt_stream (_feed_stream): whatever pieces the successive
   in_stream.read(block_size) calls return (any lengths, up to the first empty read), what is
   written to out_stream is what the feeder returns for the concatenation of those pieces fed
   in one chunk - so with the theorems below, the SP 800-38A result for the whole stream. *)
Theorem C16_stream_split : forall (E D : bytes -> bytes -> bytes),
  (forall k b, length b = 16%nat -> length (E k b) = 16%nat) ->
  forall m d pad k iv ctr reads,
  crypt_stream E D m d pad k iv ctr reads = stream_crypt E D m d pad k iv ctr [concat (until_empty reads)] /\
  (Forall (fun c : bytes => c <> []) reads ->
   crypt_stream E D m d pad k iv ctr reads = stream_crypt E D m d pad k iv ctr [concat reads]).
Proof.
  intros E D HE m d pad k iv ctr reads. split.
  - apply crypt_stream_split, HE.
  - intro H. rewrite (crypt_stream_split E D HE), (until_empty_all reads H). reflexivity.
Qed.
Print Assumptions C16_stream_split.

(* OFB and CTR: the feeders return the SP 800-38A encryption (= decryption) of the whole
   input, however it is cut into chunks, for padding 'default' and 'none', every usable key,
   iv (None = 16 zero bytes) and initial counter value *)
Theorem C16_feeder_ofb_ctr_std : forall d pad k iv v chunks,
  pad <> PadOther -> key_ok k = true ->
  (length (the_iv iv) = 16%nat ->
   stream_crypt aes_E aes_D OFB d pad k iv 0 chunks = Ok (sp_ofb_crypt (aes_E k) (the_iv iv) (concat chunks))) /\
  stream_crypt aes_E aes_D CTR d pad k iv v chunks = Ok (sp_ctr_crypt (aes_E k) v (concat chunks)).
Proof.
  intros d pad k iv v chunks Hp Hk. split.
  - intro Hiv. apply ofb_feeder_std; [exact aes_E_len | exact Hp | exact Hk | exact Hiv].
  - apply ctr_feeder_std; [exact aes_E_len | exact Hp | exact Hk].
Qed.
Print Assumptions C16_feeder_ofb_ctr_std.

(* ECB / CBC feeders: padding default encrypts the PKCS7-padded input; padding none accepts whole
   blocks only and is plain ECB / CBC in either direction; Decrypter with padding default decrypts
   and strips the last block as pyaes does (pad byte 1..16 removes that many bytes).  Every split. *)
Theorem C16_feeder_block_std : forall m k iv ctr chunks,
  m = ECB \/ m = CBC -> key_ok k = true -> length (the_iv iv) = 16%nat ->
  let data := concat chunks in
  let aligned := (negb (length data =? 0)%nat && (length data mod 16 =? 0)%nat)%bool in
  stream_crypt aes_E aes_D m Enc PadDefault k iv ctr chunks =
    Ok (std_crypt aes_E aes_D Enc m k (the_iv iv) (append_PKCS7_padding data)) /\
  (forall d, stream_crypt aes_E aes_D m d PadNone k iv ctr chunks =
    if aligned then Ok (std_crypt aes_E aes_D d m k (the_iv iv) data) else Err EBare) /\
  stream_crypt aes_E aes_D m Dec PadDefault k iv ctr chunks =
    if aligned then let P := std_crypt aes_E aes_D Dec m k (the_iv iv) data in
                    let* x := strip_PKCS7_padding (lastN 16 P) in Ok (takeN (blen P - 16) P ++ x)
    else Err EValue.
Proof.
  intros m k iv ctr chunks Hm Hk Hiv data aligned. split; [|split].
  - apply block_enc_default_std; [exact aes_E_len | exact Hm | exact Hk | exact Hiv].
  - intro d. apply block_none_std; [exact aes_E_len | exact Hm | exact Hk | exact Hiv].
  - apply block_dec_default_std; [exact aes_E_len | exact aes_D_len | exact Hm | exact Hk | exact Hiv].
Qed.
Print Assumptions C16_feeder_block_std.

(* CFB feeders (segment size 1..16 bytes, padding default): s-bit CFB of SP 800-38A 6.3 on the
   input zero-padded to whole segments, cut back to the input length.  Every split. *)
Theorem C16_feeder_cfb_std : forall d s k iv ctr chunks,
  1 <= seg_of s <= 16 -> key_ok k = true -> length iv = 16%nat ->
  let sb := N.to_nat (seg_of s) in
  let data := concat chunks in
  let padded := data ++ zeros (sb - length data mod sb) in
  stream_crypt aes_E aes_D (CFB s) d PadDefault k (Some iv) ctr chunks =
  Ok (firstn (length data)
        (match d with
         | Enc => sp_cfb_enc (aes_E k) sb (pieces (length padded) sb padded) iv
         | Dec => sp_cfb_dec (aes_E k) sb (pieces (length padded) sb padded) iv
         end)).
Proof.
  intros d s k iv ctr chunks Hs Hk Hiv sb data padded.
  pose proof (cfb_feeder_std aes_E aes_D aes_E_len d s k iv ctr chunks Hs Hk Hiv) as H.
  cbv zeta in H. fold sb data padded in H. rewrite H. destruct d; reflexivity.
Qed.
Print Assumptions C16_feeder_cfb_std.

(* mode objects called directly: for CFB (whole segments), OFB and CTR, two consecutive calls
   return what one call on the concatenation returns, and leave the object in the same state *)
Theorem C16_mode_calls_split : forall m d k st x1 x2,
  (m = CFB (match m with CFB s => s | _ => 0 end) \/ m = OFB \/ m = CTR) ->
  (m = CTR -> length (m_reg st) = 16%nat) ->
  blen x1 mod unit_of m = 0 -> blen x2 mod unit_of m = 0 ->
  mode_crypt aes_E aes_D d m k st (x1 ++ x2) =
  let* (o1, st1) := mode_crypt aes_E aes_D d m k st x1 in
  let* (o2, st2) := mode_crypt aes_E aes_D d m k st1 x2 in
  Ok (o1 ++ o2, st2).
Proof.
  intros m d k st x1 x2 Hm Hc H1 H2. apply unit_hom; try assumption; [exact aes_E_len|].
  destruct Hm as [-> | [-> | ->]]; exact I.
Qed.
Print Assumptions C16_mode_calls_split.

(* Counter(v) holds the low 128 bits of v big-endian; increment() is +1 modulo 2^128
   (the standard incrementing function of SP 800-38A B.1 on all 128 bits) *)
Theorem C16_ctr_counter : forall v,
  counter_init v = ctr_block v /\ counter_increment (ctr_block v) = ctr_block (v + 1) /\
  forall c, length (counter_increment c) = length c /\
            from_be (counter_increment c) = (from_be c + 1) mod 256 ^ blen c.
Proof.
  intro v. destruct (counter_block_spec v) as [H1 H2]. split; [exact H1|]. split; [exact H2|].
  exact counter_increment_spec.
Qed.
Print Assumptions C16_ctr_counter.

(* bec2format.crypto.pad (pad_length generated from the source) is the zero padding of Model/Cbc.v *)
Theorem C16_pad : forall d, crypto_pad d = zero_pad d.
Proof. exact crypto_pad_eq. Qed.
Print Assumptions C16_pad.

(* ---- 3. the adapter ------------------------------------------------------------------------- *)

(* what AES128Proxy does (fresh CBC mode object, Encrypter/Decrypter with padding none, data
   zero-padded by the proxy) is the zero-padded CBC of Model/Cbc.v over the bundled cipher,
   including the ValueErrors; mac = last 16 bytes of that.  The functions take (key, iv, data)
   only: there is no state that a call could leave behind. *)
Theorem C16_adapter : forall k iv d,
  proxy_encrypt aes_E aes_D k iv d = adapter_encrypt aes_E k iv d /\
  proxy_decrypt aes_E aes_D k iv d = adapter_decrypt aes_D k iv d /\
  proxy_mac aes_E aes_D k iv d = adapter_mac aes_E k iv d.
Proof.
  intros k iv d. split; [|split].
  - apply proxy_encrypt_eq. exact aes_E_len.
  - apply proxy_decrypt_eq.
  - apply proxy_mac_eq. exact aes_E_len.
Qed.
Print Assumptions C16_adapter.

(* decryption returns exactly the zero-padded data that was encrypted *)
Theorem C16_adapter_inverse : forall k iv d c,
  adapter_encrypt aes_E k iv d = Ok c ->
  adapter_decrypt aes_D k iv c = Ok (zero_pad d) /\ blen c = blen (zero_pad d) /\
  adapter_mac aes_E k iv d = Ok (lastN 16 c).
Proof.
  intros k iv d c H.
  destruct (adapter_decrypt_encrypt aes_E aes_D aes_E_len aes_DE16 k iv d c H) as [H1 H2].
  split; [exact H1|]. split; [exact H2|]. unfold adapter_mac. rewrite H. reflexivity.
Qed.
Print Assumptions C16_adapter_inverse.

Example C16_nonvacuous :
  key_ok (H 16 0x2b7e151628aed2a6abf7158809cf4f3c) = true /\
  aes_E (H 16 0x2b7e151628aed2a6abf7158809cf4f3c) (H 16 0x3243f6a8885a308d313198a2e0370734)
    = H 16 0x3925841d02dc09fbdc118597196a0b32 /\
  match adapter_encrypt aes_E (zeros 16) None [x01; x02; x03] with
  | Ok c => negb (bytes_eqb c []) &&
            res_eqb bytes_eqb (adapter_decrypt aes_D (zeros 16) None c) (Ok ([x01; x02; x03] ++ zeros 13))
  | Err _ => false
  end = true.
Proof. split; [reflexivity|]. split; vm_compute; reflexivity. Qed.
Print Assumptions C16_nonvacuous.

(* ===================================================================== *)
(* Consequences for the container layer: the theorems of C01 / C08, which are stated for the
   adapter over ANY block function with D k (E k b) = b, instantiated with the bundled cipher.
   Nothing is assumed about AES any more (Proofs/Capstone.v). *)
From Bec2 Require Import Base.Reader Model.Bf3 Model.AesContainer Proofs.Bf3Proofs Proofs.Bf3TextProofs Proofs.Capstone.

Theorem C16_bf3_binary_roundtrip_bundled : forall cs off k b check,
  Forall wf_comp cs ->
  to_binary (adapter_encrypt aes_E) (adapter_mac aes_E) cs off k = Ok b ->
  from_binary (adapter_decrypt aes_D) (adapter_mac aes_E) (mkR b off) check k = Ok (map view cs).
Proof. exact bf3_binary_bundled_aes. Qed.
Print Assumptions C16_bf3_binary_roundtrip_bundled.

Theorem C16_bf3_text_roundtrip_bundled : forall f k t check,
  wf_file f -> write_file (adapter_encrypt aes_E) (adapter_mac aes_E) f k = Ok t ->
  read_file (adapter_decrypt aes_D) (adapter_mac aes_E) t check k = Ok (file_view f).
Proof. exact bf3_text_bundled_aes. Qed.
Print Assumptions C16_bf3_text_roundtrip_bundled.

Theorem C16_auth_container_inverse_bundled : forall k pt ct,
  Model.AesContainer.wrap (fun k d => adapter_encrypt aes_E k None d) k pt = Ok ct ->
  Model.AesContainer.unwrap (fun k d => adapter_decrypt aes_D k None d) k ct = Ok pt /\ (blen ct mod 16 = 0)%N.
Proof. exact container_inverse_bundled_aes. Qed.
Print Assumptions C16_auth_container_inverse_bundled.
