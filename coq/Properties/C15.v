(* C15 - The authentication-block checksum is CRC-16/MCRF4XX for all inputs.
   Theorems are about Gen.Crc, which is regenerated from
   /repo/bec2format/bec2file.py on every run. *)
From Coq Require Import List NArith.
From Bec2 Require Import Gen.Crc Proofs.CrcProofs.
Import ListNotations.
Open Scope N_scope.

(* one update step: all 2^16 start values x all 256 byte values *)
Theorem C15_step : forall crc b, crc < 65536 -> b < 256 ->
  crc8404B_body crc b = bitserial_step crc b /\ crc8404B_body crc b < 65536.
Proof. exact crc_step_correct. Qed.
Print Assumptions C15_step.

(* every byte string, every 16-bit start value; the result fits in 16 bits *)
Theorem C15 : forall data start, start < 65536 -> Forall (fun b => b < 256) data ->
  crc8404B data start = crc16_mcrf4xx data start /\ crc8404B data start < 65536.
Proof. exact crc_correct. Qed.
Print Assumptions C15.

(* default start value 0xFFFF; no final XOR (crc16_mcrf4xx has none) *)
Theorem C15_default : crc8404B_default_start = 0xFFFF.
Proof. reflexivity. Qed.
Print Assumptions C15_default.

Theorem C15_check_value :
  crc8404B [49;50;51;52;53;54;55;56;57] crc8404B_default_start = 0x6F91.
Proof. exact crc_check_value. Qed.
Print Assumptions C15_check_value.
