(* C11 - Configuration updates are history-independent.
   Model: Model/History.v (hand model of Bf3File.set_config / _get_config_ndx /
   derive_comments_from_config, Bec2File.add_auth_block /
   derive_auth_blocks_from_config, the caller's components.append / insert and a
   write + read-back; tag constants generated from the source).  The ConfigId
   factories, str(ConfigId), .version, the TLV encoding of set_config and the
   session cipher are universally quantified parameters: every theorem holds
   for ALL functions put in their place (C10 / C12 / C16 are about them).
   `allowed o` = the caller's own append/insert adds a firmware component
   (is_config x = false), as in the property's quantifier. *)
From Coq Require Import Strings.String Strings.Ascii.
From Coq Require Import List Bool NArith ZArith.
From Coq Require Import Init.Byte.
From Bec2 Require Import Base.Result Base.Bytes Gen.Consts Model.History Proofs.HistoryProofs.
Import ListNotations.
Open Scope N_scope.

(* After ANY allowed history h followed by a set_config(c, x) whose encoding is b:
   the component list is exactly the non-configuration components of the state
   before (same order, untouched) followed by the component for b; so there is
   exactly one configuration component, it is last, it depends on (c, x) only,
   and comments / auth blocks are not touched. *)
Theorem C11_one_config :
  forall (id : Type) (prj_id dev_id : config -> result id) (id_str : id -> str) (id_version : id -> N)
         (conf_blob : config -> list bytes -> result bytes) (senc sdec : bytes -> result bytes)
         (h : list op) (s0 : state) (c : config) (x : list bytes) (b : bytes),
  at_most_one_config s0 -> Forall allowed h -> conf_blob c x = Ok b ->
  let run := run id prj_id dev_id id_str id_version conf_blob senc sdec in
  let s := run h s0 in
  let s' := run (h ++ [SetConfig c x]) s0 in
  comps s' = filter non_config (comps s) ++ [cfg_comp b] /\
  count_config s' = 1%nat /\
  filter is_config (comps s') = [cfg_comp b] /\
  last (comps s') (cfg_comp []) = cfg_comp b /\
  filter non_config (comps s') = filter non_config (comps s) /\
  comments s' = comments s /\ auths s' = auths s.
Proof. exact one_config_after_set. Qed.
Print Assumptions C11_one_config.

(* the component set_config builds is a configuration component whose
   encryption flag agrees with its ENC tag *)
Theorem C11_cfg_comp : forall b,
  is_config (cfg_comp b) = true /\ enc_consistent (cfg_comp b) /\
  c_blob (cfg_comp b) = b /\ c_enc (cfg_comp b) = true.
Proof. intro b. repeat split. Qed.
Print Assumptions C11_cfg_comp.

(* in every reachable state (also after operations that raised) there is at
   most one configuration component *)
Theorem C11_at_most_one :
  forall (id : Type) (prj_id dev_id : config -> result id) (id_str : id -> str) (id_version : id -> N)
         (conf_blob : config -> list bytes -> result bytes) (senc sdec : bytes -> result bytes)
         (h : list op) (s0 : state),
  Forall allowed h -> at_most_one_config s0 ->
  at_most_one_config (run id prj_id dev_id id_str id_version conf_blob senc sdec h s0).
Proof. exact run_at_most_one. Qed.
Print Assumptions C11_at_most_one.

(* ... and exactly one from the first configuration update on, as long as no
   set_config raises while encoding *)
Theorem C11_exactly_one_stays :
  forall (id : Type) (prj_id dev_id : config -> result id) (id_str : id -> str) (id_version : id -> N)
         (conf_blob : config -> list bytes -> result bytes) (senc sdec : bytes -> result bytes)
         (h : list op) (s : state),
  Forall allowed h -> Forall (set_ok conf_blob) h -> count_config s = 1%nat ->
  count_config (run id prj_id dev_id id_str id_version conf_blob senc sdec h s) = 1%nat.
Proof. exact exactly_one_stays. Qed.
Print Assumptions C11_exactly_one_stays.

(* What the code does when the encoding raises (conf_dict_to_tlv / to_bytes
   errors): the old configuration component has already been deleted. *)
Theorem C11_failed_update_drops_config :
  forall (id : Type) (prj_id dev_id : config -> result id) (id_str : id -> str) (id_version : id -> N)
         (conf_blob : config -> list bytes -> result bytes) (senc sdec : bytes -> result bytes)
         (s : state) (c : config) (x : list bytes) (e : err),
  at_most_one_config s -> conf_blob c x = Err e ->
  step id prj_id dev_id id_str id_version conf_blob senc sdec (SetConfig c x) s =
    (with_comps s (filter non_config (comps s)), Some e).
Proof. exact set_config_fail. Qed.
Print Assumptions C11_failed_update_drops_config.

(* Why `allowed` is needed: set_config deletes only the FIRST configuration
   component, so two configuration-typed components appended by hand survive
   as two (outside the property's quantifier: callers add firmware only). *)
Example C11_needs_allowed :
  let run := run toy_id toy_prj toy_dev fst snd toy_blob toy_cipher toy_cipher in
  count_config (run [Append (cfg_comp [x01]); Append (cfg_comp [x02]); SetConfig [] []]
                    (mkState [] [] [])) = 2%nat.
Proof. vm_compute. reflexivity. Qed.
Print Assumptions C11_needs_allowed.

(* derive_comments_from_config(c), whether it returns or raises: every other
   comment keeps its value and its relative order, nothing else changes *)
Theorem C11_comments_untouched :
  forall (id : Type) (prj_id dev_id : config -> result id) (id_str : id -> str) (id_version : id -> N)
         (conf_blob : config -> list bytes -> result bytes) (senc sdec : bytes -> result bytes)
         (c : config) (s : state),
  dict_wf (comments s) ->
  let s' := fst (step id prj_id dev_id id_str id_version conf_blob senc sdec (DeriveComments c) s) in
  (forall k, is_derived k = false ->
     dict_get str_eqb k (comments s') = dict_get str_eqb k (comments s)) /\
  other_comments (comments s') = other_comments (comments s) /\
  dict_wf (comments s') /\ comps s' = comps s /\ auths s' = auths s.
Proof. exact derive_comments_frame. Qed.
Print Assumptions C11_comments_untouched.

(* when it returns normally, each of the three derived keys is present/absent
   and valued as `derived_value c` says - a function of c alone, whatever the
   comments were before (stale keys are removed) *)
Theorem C11_comments :
  forall (id : Type) (prj_id dev_id : config -> result id) (id_str : id -> str) (id_version : id -> N)
         (conf_blob : config -> list bytes -> result bytes) (senc sdec : bytes -> result bytes)
         (c : config) (s : state),
  dict_wf (comments s) ->
  snd (step id prj_id dev_id id_str id_version conf_blob senc sdec (DeriveComments c) s) = None ->
  forall k, is_derived k = true ->
    dict_get str_eqb k
      (comments (fst (step id prj_id dev_id id_str id_version conf_blob senc sdec (DeriveComments c) s)))
    = derived_value id prj_id dev_id id_str c k.
Proof. exact derive_comments_values. Qed.
Print Assumptions C11_comments.

(* what derived_value is: str(id) of the factory result / absent when the name
   is missing; "Yes" iff (0x0620,0x20) holds a non-empty value *)
Theorem C11_derived_value :
  forall (id : Type) (prj_id dev_id : config -> result id) (id_str : id -> str) (c : config),
  derived_value id prj_id dev_id id_str c K_CONFIGURATION =
    match prj_id c with Ok i => Some (id_str i) | Err _ => None end /\
  derived_value id prj_id dev_id id_str c K_DEVICESETTINGS =
    match dev_id c with Ok i => Some (id_str i) | Err _ => None end /\
  derived_value id prj_id dev_id id_str c K_BUSADDRESS =
    (if bus_flag c then Some V_YES else None).
Proof.
  intros. unfold derived_value, derived_conf, derived_dev, id_comment.
  repeat split.
  - change (str_eqb K_CONFIGURATION K_CONFIGURATION) with true. cbv iota.
    destruct (prj_id c) as [i|e]; [reflexivity|]. destruct (err_eqb e EMissPrj); reflexivity.
  - change (str_eqb K_DEVICESETTINGS K_CONFIGURATION) with false.
    change (str_eqb K_DEVICESETTINGS K_DEVICESETTINGS) with true. cbv iota.
    destruct (dev_id c) as [i|e]; [reflexivity|]. destruct (err_eqb e EMissDev); reflexivity.
Qed.
Print Assumptions C11_derived_value.

(* history independence of the comments: any history before, any operations
   other than a new derivation after *)
Theorem C11_comments_history :
  forall (id : Type) (prj_id dev_id : config -> result id) (id_str : id -> str) (id_version : id -> N)
         (conf_blob : config -> list bytes -> result bytes) (senc sdec : bytes -> result bytes)
         (h1 : list op) (c : config) (h2 : list op) (s0 : state),
  dict_wf (comments s0) -> Forall not_derive_comments h2 ->
  let step := step id prj_id dev_id id_str id_version conf_blob senc sdec in
  let run := run id prj_id dev_id id_str id_version conf_blob senc sdec in
  snd (step (DeriveComments c) (run h1 s0)) = None ->
  let s := run (h1 ++ DeriveComments c :: h2) s0 in
  (forall k, is_derived k = true ->
     dict_get str_eqb k (comments s) = derived_value id prj_id dev_id id_str c k) /\
  (forall k, is_derived k = false ->
     dict_get str_eqb k (comments s) = dict_get str_eqb k (comments (run h1 s0))) /\
  other_comments (comments s) = other_comments (comments (run h1 s0)).
Proof. exact comments_history. Qed.
Print Assumptions C11_comments_history.

(* a file without auth blocks: exactly the requested initial block, plus the
   update block iff update_block c has one; if a factory raises an unexpected
   exception the initial block is already there *)
Theorem C11_auth :
  forall (id : Type) (prj_id dev_id : config -> result id) (id_str : id -> str) (id_version : id -> N)
         (conf_blob : config -> list bytes -> result bytes) (senc sdec : bytes -> result bytes)
         (c : config) (m : bool) (s : state),
  auths s = [] ->
  let r := step id prj_id dev_id id_str id_version conf_blob senc sdec (DeriveAuth c m) s in
  match update_block id prj_id dev_id id_version c with
  | Ok ou => snd r = None /\
             auths (fst r) = (ab_tag (init_block m), init_block m) :: update_entry ou
  | Err e => snd r = Some e /\ auths (fst r) = [(ab_tag (init_block m), init_block m)]
  end /\ comps (fst r) = comps s /\ comments (fst r) = comments s.
Proof. exact derive_auth_fresh. Qed.
Print Assumptions C11_auth.

(* the update block carries the security code (0x0202,0x82) and the version of
   the project identifier (else of the device identifier), exactly when both exist *)
Theorem C11_auth_update_block :
  forall (id : Type) (prj_id dev_id : config -> result id) (id_version : id -> N) (c : config),
  update_block id prj_id dev_id id_version c =
    match config_id id prj_id dev_id c with
    | Err e => Err e
    | Ok oi =>
      match cfg_get c 0x0202 0x82, oi with
      | Some code, Some i => Ok (Some (ABUpdate code (id_version i)))
      | _, _ => Ok None
      end
    end.
Proof. exact update_block_spec. Qed.
Print Assumptions C11_auth_update_block.

(* version 0 is a version like any other: the model tests the EXISTENCE of the
   identifier (Some i), never the truth value of its version *)
Example C11_auth_version_zero :
  let c : config := [((0x0620, Some 0x07), Some [x00]); ((0x0202, Some 0x82), Some [x45; x46])] in
  let d : config := [((0x0620, Some 0x04), Some [x00; x00]); ((0x0202, Some 0x82), Some [x47])] in
  let st := step toy_id toy_prj toy_dev fst snd toy_blob toy_cipher toy_cipher in
  auths (fst (st (DeriveAuth c false) (mkState [] [] []))) =
    [(TAG_ECC, ABEcc 0); (TAG_UPDATE, ABUpdate [x45; x46] 0)] /\
  auths (fst (st (DeriveAuth d true) (mkState [] [] []))) =
    [(TAG_CUSTKEY, ABCust); (TAG_UPDATE, ABUpdate [x47] 0)].
Proof. vm_compute. split; reflexivity. Qed.
Print Assumptions C11_auth_version_zero.

(* all histories: the auth-block dict stays a dict keyed by the blocks' tags ... *)
Theorem C11_auth_distinct_tags :
  forall (id : Type) (prj_id dev_id : config -> result id) (id_str : id -> str) (id_version : id -> N)
         (conf_blob : config -> list bytes -> result bytes) (senc sdec : bytes -> result bytes)
         (h : list op) (s : state),
  auth_wf (auths s) ->
  auth_wf (auths (run id prj_id dev_id id_str id_version conf_blob senc sdec h s)).
Proof. exact run_auths_wf. Qed.
Print Assumptions C11_auth_distinct_tags.

(* ... hence never more than one block per kind, however often and in whatever
   mode blocks are derived *)
Theorem C11_auth_one_per_kind :
  forall (id : Type) (prj_id dev_id : config -> result id) (id_str : id -> str) (id_version : id -> N)
         (conf_blob : config -> list bytes -> result bytes) (senc sdec : bytes -> result bytes)
         (h : list op) (s : state) (b : auth_block),
  auth_wf (auths s) ->
  (count_kind b (auths (run id prj_id dev_id id_str id_version conf_blob senc sdec h s)) <= 1)%nat.
Proof. intros. apply one_per_kind. apply run_auths_wf. assumption. Qed.
Print Assumptions C11_auth_one_per_kind.

(* both modes one after the other: the customer-key block (tag 1) and the ECC
   block (tag 3) are different kinds and BOTH stay - one per kind; the update
   block is unique, keeps the position of its first insertion and carries the
   last configuration that had one (an old one stays when the new
   configuration has none) *)
Theorem C11_auth_both_modes :
  forall (id : Type) (prj_id dev_id : config -> result id) (id_str : id -> str) (id_version : id -> N)
         (conf_blob : config -> list bytes -> result bytes) (senc sdec : bytes -> result bytes)
         (c1 c2 : config) (s : state) (u1 u2 : option auth_block),
  auths s = [] ->
  update_block id prj_id dev_id id_version c1 = Ok u1 ->
  update_block id prj_id dev_id id_version c2 = Ok u2 ->
  auths (run id prj_id dev_id id_str id_version conf_blob senc sdec
           [DeriveAuth c1 true; DeriveAuth c2 false] s) =
    match u1, u2 with
    | None, None => [(TAG_CUSTKEY, ABCust); (TAG_ECC, ABEcc 0)]
    | Some a, None => [(TAG_CUSTKEY, ABCust); (TAG_UPDATE, a); (TAG_ECC, ABEcc 0)]
    | Some _, Some b => [(TAG_CUSTKEY, ABCust); (TAG_UPDATE, b); (TAG_ECC, ABEcc 0)]
    | None, Some b => [(TAG_CUSTKEY, ABCust); (TAG_ECC, ABEcc 0); (TAG_UPDATE, b)]
    end.
Proof. exact derive_auth_both_modes. Qed.
Print Assumptions C11_auth_both_modes.

(* write + read back is the identity as far as this property is concerned:
   descriptions (hence which component is the configuration, and the order),
   comments and auth blocks come back unchanged for ANY cipher; with a cipher
   that decrypts what it encrypted and flags that agree with the ENC tags the
   only change is the zero-padding of encrypted blobs *)
Theorem C11_write_read :
  forall (senc sdec : bytes -> result bytes) (s : state),
  let s' := fst (write_read senc sdec s) in
  map c_desc (comps s') = map c_desc (comps s) /\ comments s' = comments s /\ auths s' = auths s.
Proof. exact write_read_frame. Qed.
Print Assumptions C11_write_read.

Theorem C11_write_read_transparent :
  forall (senc sdec : bytes -> result bytes) (s : state),
  (forall d, exists e, senc d = Ok e /\ sdec e = Ok d) ->
  Forall enc_consistent (comps s) ->
  write_read senc sdec s = (with_comps s (map pad_enc (comps s)), None).
Proof. exact write_read_transparent. Qed.
Print Assumptions C11_write_read_transparent.

(* non-vacuity: a concrete history with two configuration updates, firmware
   components with and without TYPE tag, stale comments and both derivation
   modes satisfies the hypotheses and produces the stated final state *)
Example C11_nonvacuous :
  let cfgA : config := [((0x0620, Some 0x07), Some [x09]); ((0x0202, Some 0x82), Some [x45; x45]);
                        ((0x0620, Some 0x20), Some [x01])] in
  let cfgB : config := [((0x1111, Some 0x22), Some [x33])] in
  let fw1 := mkComp [(BF3TAG_TYPE, [x02])] [xaa; xbb] 2 false in
  let fw2 := mkComp [] [xcc] 1 false in
  let s0 := mkState [fw1] [(s2n "Foo", s2n "bar"); (K_DEVICESETTINGS, s2n "stale")] [] in
  let h := [SetConfig cfgB []; Insert 0 fw2; DeriveAuth cfgB true; WriteRead;
            DeriveComments cfgA; DeriveAuth cfgA false; SetConfig cfgA [[x01]]] in
  let s := run toy_id toy_prj toy_dev fst snd toy_blob toy_cipher toy_cipher h s0 in
  at_most_one_config s0 /\ Forall allowed h /\ dict_wf (comments s0) /\ auth_wf (auths s0) /\
  comps s = [fw2; fw1; cfg_comp [x09; x45; x45; x01; x01; x00]] /\
  comments s = [(s2n "Foo", s2n "bar"); (K_CONFIGURATION, s2n "prj"); (K_BUSADDRESS, V_YES)] /\
  auths s = [(TAG_CUSTKEY, ABCust); (TAG_ECC, ABEcc 0); (TAG_UPDATE, ABUpdate [x45; x45] 9)].
Proof.
  cbv zeta. split; [vm_compute; auto|]. split; [repeat constructor|].
  split; [repeat constructor; vm_compute; intuition discriminate|].
  split; [split; constructor|].
  vm_compute. repeat split.
Qed.
Print Assumptions C11_nonvacuous.
