(* C19 - Key and point encodings round-trip and are byte-compatible with OpenSSL.
   Models: Model/Der.v (der.py primitives), Model/KeyCodec.v (util number codecs, point
   encodings, Curve / VerifyingKey / SigningKey DER codecs, the bec2format 27-byte header);
   object identifiers, the parameters of the 17 short-Weierstrass curves and the header are
   GENERATED from the source (Gen/KeyOids.v, Gen/Consts.v).
   LMAX = 256^127 is the largest length whose long form fits the 7-bit length-of-length; every
   len() of a Python bytes object is far below it, so "blen _ < LMAX" excludes nothing real.
   External functions (modular square root, scalar multiplication, the EdDSA classes, base64)
   are universally quantified function arguments.
   /repo commit 430b0b7 made the removers test for empty and over-long input; before it the
   error-closure and exactness theorems below were refuted by IndexError / truncated bodies.
   Not covered by theorems (partial): PEM only up to an opaque base64; byte compatibility with
   OpenSSL is checked by the harness (tools/props/C19.py) when an openssl binary is present.
   Compressed points: the generic theorems take the modular square root as an oracle; the last
   section instantiates it with the model of numbertheory.square_root_mod_prime
   (Model/NumTheory.v), whose only remaining assumption is that numbertheory.jacobi does not
   answer -1 on a quadratic residue (its correctness is quadratic reciprocity, not proved);
   primality of the shipped field primes and group orders is proved by Pocklington certificates
   checked inside Coq (Proofs/Pocklington.v, Proofs/PrimeCerts*.v).  This file carries the field
   primes of at most 256 bits (12 curves); ALL 17 field primes and 17 group orders, and the
   compressed round trip on all 16 curves with p = 3 (mod 4), are in Properties/C19Big.v, which
   every run of the check builds (tools/props/C19.py: MODEL_TARGETS) but which lies outside the
   cone that the thorough tier re-checks with coqchk (no bytecode VM: 50 minutes for those
   certificates). *)
From Coq Require Import List Bool NArith ZArith Znumtheory.
From Coq Require Import Init.Byte.
From Bec2 Require Import Base.Result Base.Bytes Base.Modp Gen.Consts Gen.KeyOids Model.Der Model.KeyCodec
  Model.NumTheory Proofs.DerProofs Proofs.KeyCodecProofs Proofs.NumTheoryProofs Proofs.NumTheorySmall
  Proofs.Pocklington Proofs.PrimeCerts Proofs.CurvePrimes Proofs.KeyCodecSqrtProofs.
Import ListNotations.
Open Scope N_scope.

(* ======== DER primitives: round trip and exactness, for all naturals / all byte strings ======== *)

Theorem C19_length_roundtrip : forall l r, l < 256 ^ 127 ->
  read_length (encode_length l ++ r) = Ok (l, blen (encode_length l)).
Proof. exact read_length_encode. Qed.
Print Assumptions C19_length_roundtrip.

(* decode succeeds => the input starts with THE canonical encoding: the minimality checks are complete *)
Theorem C19_length_exact : forall s l ll, read_length s = Ok (l, ll) ->
  l < 256 ^ 127 /\ ll = blen (encode_length l) /\ exists r, s = encode_length l ++ r.
Proof. exact read_length_exact. Qed.
Print Assumptions C19_length_exact.

Theorem C19_integer_roundtrip : forall n r, 1 + bytelen n < 256 ^ 127 ->
  remove_integer (encode_integer n ++ r) = Ok (n, r).
Proof. exact remove_integer_encode. Qed.
Print Assumptions C19_integer_roundtrip.

Theorem C19_integer_exact : forall s n r, remove_integer s = Ok (n, r) -> s = encode_integer n ++ r.
Proof. intros s n r H. exact (proj2 (remove_integer_exact s n r H)). Qed.
Print Assumptions C19_integer_exact.

Theorem C19_number_roundtrip : forall n r,
  read_number (encode_number n ++ r) = Ok (n, blen (encode_number n)).
Proof. exact read_number_encode. Qed.
Print Assumptions C19_number_roundtrip.

Theorem C19_number_exact : forall s n ll, read_number s = Ok (n, ll) ->
  ll = blen (encode_number n) /\ exists r, s = encode_number n ++ r.
Proof. exact read_number_exact. Qed.
Print Assumptions C19_number_exact.

Theorem C19_oid_roundtrip : forall first second pieces r enc,
  encode_oid first second pieces = Ok enc -> blen (oid_body first second pieces) < 256 ^ 127 ->
  remove_object (enc ++ r) = Ok (first :: second :: pieces, r).
Proof. exact remove_object_encode. Qed.
Print Assumptions C19_oid_roundtrip.

Theorem C19_oid_exact : forall s first second pieces r,
  remove_object s = Ok (first :: second :: pieces, r) ->
  exists enc, encode_oid first second pieces = Ok enc /\ s = enc ++ r.
Proof. exact remove_object_exact. Qed.
Print Assumptions C19_oid_exact.

Theorem C19_sequence_roundtrip : forall pieces r, blen (concat pieces) < 256 ^ 127 ->
  remove_sequence (encode_sequence pieces ++ r) = Ok (concat pieces, r).
Proof. exact remove_sequence_encode. Qed.
Print Assumptions C19_sequence_roundtrip.

Theorem C19_sequence_exact : forall s body r, remove_sequence s = Ok (body, r) ->
  s = encode_sequence [body] ++ r.
Proof. intros s body r H. exact (proj2 (remove_sequence_exact s body r H)). Qed.
Print Assumptions C19_sequence_exact.

Theorem C19_octet_string_roundtrip : forall s r, blen s < 256 ^ 127 ->
  remove_octet_string (encode_octet_string s ++ r) = Ok (s, r).
Proof. exact remove_octet_string_encode. Qed.
Print Assumptions C19_octet_string_roundtrip.

Theorem C19_bitstring_roundtrip : forall s u enc r, encode_bitstring s (BsInt u) = Ok enc ->
  1 + blen s < 256 ^ 127 -> remove_bitstring (enc ++ r) (BsInt u) = Ok (s, None, r).
Proof. exact remove_bitstring_encode. Qed.
Print Assumptions C19_bitstring_roundtrip.

Theorem C19_constructed_roundtrip : forall tag body r enc, tag <= 31 -> blen body < 256 ^ 127 ->
  encode_constructed tag body = Ok enc -> remove_constructed (enc ++ r) = Ok (tag, body, r).
Proof.
  intros tag body r enc Ht Hb He. rewrite (encode_constructed_ok tag body Ht) in He.
  apply ok_inj in He. subst enc. exact (remove_constructed_tlv tag body r Ht Hb).
Qed.
Print Assumptions C19_constructed_roundtrip.

Theorem C19_octet_string_exact : forall s body r, remove_octet_string s = Ok (body, r) ->
  s = encode_octet_string body ++ r.
Proof. intros s body r H. exact (proj2 (remove_octet_string_exact s body r H)). Qed.
Print Assumptions C19_octet_string_exact.

Theorem C19_bitstring_exact : forall s u body r, remove_bitstring s (BsInt u) = Ok (body, None, r) ->
  exists enc, encode_bitstring body (BsInt u) = Ok enc /\ s = enc ++ r.
Proof. exact remove_bitstring_exact. Qed.
Print Assumptions C19_bitstring_exact.

Theorem C19_constructed_exact : forall s tag body r, remove_constructed s = Ok (tag, body, r) ->
  exists enc, encode_constructed tag body = Ok enc /\ s = enc ++ r.
Proof.
  intros s tag body r H. destruct (remove_constructed_exact s tag body r H) as [Ht [_ Hs]].
  exists (tlv (n2b (0xA0 + tag)) body). split; [apply encode_constructed_ok, Ht | exact Hs].
Qed.
Print Assumptions C19_constructed_exact.

(* the bound l < 256^127 of the length round trip is tight: the next length does not survive *)
Example C19_length_bound_tight : read_length (encode_length (256 ^ 127)) = Err EUnexpectedDER.
Proof. vm_compute. reflexivity. Qed.
Print Assumptions C19_length_bound_tight.

(* ======== truncation and extension ================================================================ *)

Theorem C19_truncation_sequence : forall body k, blen body < 256 ^ 127 ->
  (k < length (encode_sequence [body]))%nat ->
  remove_sequence (firstn k (encode_sequence [body])) = Err EUnexpectedDER.
Proof.
  intros body k H Hk. rewrite encode_sequence_tlv in *. cbn [concat] in *. rewrite app_nil_r in *.
  exact (remove_sequence_prefix body k H Hk).
Qed.
Print Assumptions C19_truncation_sequence.

Theorem C19_truncation_integer : forall n k, 1 + bytelen n < 256 ^ 127 ->
  (k < length (encode_integer n))%nat ->
  remove_integer (firstn k (encode_integer n)) = Err EUnexpectedDER.
Proof.
  intros n k H Hk. rewrite encode_integer_tlv in *. apply remove_integer_prefix; [|exact Hk].
  pose proof (int_body_blen_le n). unfold LMAX. 
  eapply N.le_lt_trans; [eassumption | exact H].
Qed.
Print Assumptions C19_truncation_integer.

Theorem C19_truncation_oid : forall first second pieces enc k,
  encode_oid first second pieces = Ok enc -> blen (oid_body first second pieces) < 256 ^ 127 ->
  (k < length enc)%nat -> remove_object (firstn k enc) = Err EUnexpectedDER.
Proof. exact remove_object_prefix. Qed.
Print Assumptions C19_truncation_oid.

(* every proper prefix of an encoded public / private key is rejected, for all keys, all curves,
   all point and parameter encodings, SEC1 and PKCS#8 *)
Theorem C19_truncation_vk :
  forall sqrt_mod order_ok ed_vk known c x y pe ce d k ve ven vex,
  vk_to_der c x y pe ce = Ok d -> blen d < 256 ^ 127 -> (k < length d)%nat ->
  vk_from_der sqrt_mod order_ok ed_vk known (firstn k d) ve ven vex = Err EUnexpectedDER.
Proof.
  intros sq ok edv known c x y pe ce d k ve ven vex Hd Hb Hk.
  destruct (vk_to_der_inv _ _ _ _ _ _ Hd) as [_ [ps [cd [_ [_ ->]]]]].
  apply vk_from_der_prefix; [|exact Hk]. rewrite tlv_blen in Hb. unfold LMAX.
  eapply N.le_lt_trans; [|exact Hb]. rewrite N.add_comm. apply N.le_add_r.
Qed.
Print Assumptions C19_truncation_vk.

Theorem C19_truncation_sk :
  forall sqrt_mod order_ok pubmul ed_sk known c secexp px py pe fmt ce d k ven vex,
  sk_to_der c secexp px py pe fmt ce = Ok d -> blen d < 256 ^ 127 -> (k < length d)%nat ->
  sk_from_der sqrt_mod order_ok pubmul ed_sk known (firstn k d) ven vex = Err EUnexpectedDER.
Proof.
  intros sq ok pm eds known c secexp px py pe fmt ce d k ven vex Hd Hb Hk.
  destruct (sk_to_der_inv _ _ _ _ _ _ _ _ Hd) as [_ [evk [ks [cd [_ [_ [_ Hs]]]]]]].
  assert (exists body, d = tlv x30 body) as [body ->] by (destruct fmt; eexists; exact Hs).
  apply sk_from_der_prefix; [|exact Hk]. rewrite tlv_blen in Hb. unfold LMAX.
  eapply N.le_lt_trans; [|exact Hb]. rewrite N.add_comm. apply N.le_add_r.
Qed.
Print Assumptions C19_truncation_sk.

(* trailing bytes after an encoded key are always rejected *)
Theorem C19_extension_vk :
  forall sqrt_mod order_ok ed_vk known c x y pe ce d ext ve ven vex,
  vk_to_der c x y pe ce = Ok d -> blen d < 256 ^ 127 -> ext <> [] ->
  vk_from_der sqrt_mod order_ok ed_vk known (d ++ ext) ve ven vex = Err EUnexpectedDER.
Proof.
  intros sq ok edv known c x y pe ce d ext ve ven vex Hd Hb Hext.
  destruct (vk_to_der_inv _ _ _ _ _ _ Hd) as [_ [ps [cd [_ [_ ->]]]]].
  rewrite vk_from_der_outer.
  - destruct ext; [contradiction | reflexivity].
  - rewrite tlv_blen in Hb. unfold LMAX. eapply N.le_lt_trans; [|exact Hb]. rewrite N.add_comm. apply N.le_add_r.
Qed.
Print Assumptions C19_extension_vk.

Theorem C19_extension_sk :
  forall sqrt_mod order_ok pubmul ed_sk known c secexp px py pe fmt ce d ext ven vex,
  sk_to_der c secexp px py pe fmt ce = Ok d -> blen d < 256 ^ 127 -> ext <> [] ->
  sk_from_der sqrt_mod order_ok pubmul ed_sk known (d ++ ext) ven vex = Err EUnexpectedDER.
Proof.
  intros sq ok pm eds known c secexp px py pe fmt ce d ext ven vex Hd Hb Hext.
  destruct (sk_to_der_inv _ _ _ _ _ _ _ _ Hd) as [_ [evk [ks [cd [_ [_ [_ Hs]]]]]]].
  assert (exists body, d = tlv x30 body) as [body ->] by (destruct fmt; eexists; exact Hs).
  rewrite sk_from_der_outer.
  - destruct ext; [contradiction | reflexivity].
  - rewrite tlv_blen in Hb. unfold LMAX. eapply N.le_lt_trans; [|exact Hb]. rewrite N.add_comm. apply N.le_add_r.
Qed.
Print Assumptions C19_extension_sk.

Theorem C19_truncation_octet_string : forall s k, blen s < 256 ^ 127 ->
  (k < length (encode_octet_string s))%nat ->
  remove_octet_string (firstn k (encode_octet_string s)) = Err EUnexpectedDER.
Proof. intros s k H Hk. rewrite encode_octet_string_tlv in *. exact (remove_octet_string_prefix s k H Hk). Qed.
Print Assumptions C19_truncation_octet_string.

Theorem C19_truncation_bitstring : forall s u enc k m, encode_bitstring s (BsInt u) = Ok enc ->
  1 + blen s < 256 ^ 127 -> (k < length enc)%nat ->
  remove_bitstring (firstn k enc) m = Err EUnexpectedDER.
Proof.
  intros s u enc k m He Hl Hk. destruct (encode_bitstring_int s u enc He) as [_ [-> _]].
  apply remove_bitstring_prefix; [|exact Hk]. rewrite blen_cons. exact Hl.
Qed.
Print Assumptions C19_truncation_bitstring.

Theorem C19_truncation_constructed : forall tag body enc k, tag <= 31 -> blen body < 256 ^ 127 ->
  encode_constructed tag body = Ok enc -> (k < length enc)%nat ->
  remove_constructed (firstn k enc) = Err EUnexpectedDER.
Proof.
  intros tag body enc k Ht Hb He Hk. rewrite (encode_constructed_ok tag body Ht) in He.
  apply ok_inj in He. subst enc. exact (remove_constructed_prefix tag body k Ht Hb Hk).
Qed.
Print Assumptions C19_truncation_constructed.

(* ======== fixed-width numbers and point strings (leading zeros included) =========================== *)

Theorem C19_number_string_fixed_width : forall x order s, x < 256 ^ orderlen order ->
  number_to_string x order = Ok s -> string_to_number s = Ok x /\ blen s = orderlen order.
Proof. exact string_to_number_number_to_string. Qed.
Print Assumptions C19_number_string_fixed_width.

Theorem C19_number_string_total : forall x order, x < order ->
  number_to_string x order = Ok (be (N.to_nat (orderlen order)) x).
Proof. intros x o H. apply number_to_string_ok, lt_order_fits, H. Qed.
Print Assumptions C19_number_string_total.

(* raw / uncompressed / hybrid strings of every valid point decode to the same key, for every curve
   object and every coordinate value below p (so also with leading zero bytes) *)
Theorem C19_point_roundtrip :
  forall sqrt_mod order_ok ed_vk c x y e s validate ve,
  e <> Compressed -> point_valid order_ok c x y -> enc_allowed e ve = true ->
  vk_to_string c x y e = Ok s ->
  vk_from_string sqrt_mod order_ok ed_vk (CW c) s validate ve = Ok (VkW c x y).
Proof. exact vk_string_roundtrip. Qed.
Print Assumptions C19_point_roundtrip.

(* a hybrid string whose tag byte contradicts the parity of y is rejected (OpenSSL does the same) *)
Theorem C19_hybrid_inconsistent_rejected : forall sqrt_mod c x y ve, x < c_p c -> y < c_p c ->
  e_hyb (encs_norm ve) = true ->
  point_from_bytes sqrt_mod c
    ((if N.odd y then x06 else x07) :: be (N.to_nat (orderlen (c_p c))) x ++ be (N.to_nat (orderlen (c_p c))) y)
    true ve = Err EMalformedPoint.
Proof. intros sq c x y ve Hx Hy. exact (point_from_bytes_hyb_inconsistent sq (c_p c) x y Hx Hy c eq_refl ve). Qed.
Print Assumptions C19_hybrid_inconsistent_rejected.

Theorem C19_point_encode_total : forall c x y e, x < c_p c -> y < c_p c ->
  exists s, vk_to_string c x y e = Ok s /\
    blen s = blen (enc_tag y e) + (match e with Compressed => 1 | _ => 2 end) * orderlen (c_p c).
Proof. exact vk_to_string_ok. Qed.
Print Assumptions C19_point_encode_total.

(* partial: the modular square root is an oracle that returns one of the two roots *)
Theorem C19_point_roundtrip_compressed_partial :
  forall sqrt_mod order_ok ed_vk c x y s validate ve beta,
  point_valid order_ok c x y -> enc_allowed Compressed ve = true ->
  2 <= orderlen (c_p c) -> N.odd (c_p c) = true ->
  sqrt_mod (Zmodp (Zmodp (Z.of_N x * Z.of_N x * Z.of_N x) (c_p c) + c_a c * Z.of_N x + c_b c) (c_p c)) (c_p c)
    = Some beta ->
  (beta = y \/ (beta = c_p c - y /\ y <> 0)) ->
  vk_to_string c x y Compressed = Ok s ->
  vk_from_string sqrt_mod order_ok ed_vk (CW c) s validate ve = Ok (VkW c x y).
Proof. exact vk_string_roundtrip_compressed. Qed.
Print Assumptions C19_point_roundtrip_compressed_partial.

(* a string whose length is that of no point encoding of the curve is rejected: in particular every
   truncation / extension of a valid point string to such a length, and every private-key string of
   the wrong length *)
Theorem C19_point_string_wrong_length_rejected : forall sqrt_mod c s validate ve,
  blen s <> 2 * orderlen (c_p c) -> blen s <> 2 * orderlen (c_p c) + 1 ->
  blen s <> 2 * orderlen (c_p c) / 2 + 1 ->
  point_from_bytes sqrt_mod c s validate ve = Err EMalformedPoint.
Proof. exact point_from_bytes_wrong_length. Qed.
Print Assumptions C19_point_string_wrong_length_rejected.

Theorem C19_sk_string_roundtrip : forall order_ok pubmul ed_sk c k px py ks,
  1 <= k -> k < c_n c -> pubmul c k = Ok (px, py) -> px < c_p c -> py < c_p c ->
  sk_to_string c k = Ok ks ->
  blen ks = baselen c /\ sk_from_string order_ok pubmul ed_sk (CW c) ks = Ok (SkW c k px py).
Proof. exact sk_string_roundtrip. Qed.
Print Assumptions C19_sk_string_roundtrip.

Theorem C19_sk_string_wrong_length_rejected : forall order_ok pubmul ed_sk c s, blen s <> baselen c ->
  sk_from_string order_ok pubmul ed_sk (CW c) s = Err EMalformedPoint.
Proof. exact sk_from_string_wrong_length. Qed.
Print Assumptions C19_sk_string_wrong_length_rejected.

(* the secret scalar must lie in 1 .. n-1: a raw string, a SEC1 file and a PKCS#8 file whose key octets
   encode 0 or a value >= n (n itself, n+1, 2^bits-1, ...) are rejected with MalformedPointError, for every
   curve object; the range test is part of the model (sk_from_secret_exponent), not of an oracle *)
Theorem C19_sk_range_rejected :
  forall sqrt_mod order_ok pubmul ed_sk known c ks k,
  blen ks = baselen c -> string_to_number ks = Ok k -> k = 0 \/ c_n c <= k ->
  sk_from_string order_ok pubmul ed_sk (CW c) ks = Err EMalformedPoint /\
  forall cd evk fmt ven vex,
    curve_from_der sqrt_mod known cd ven vex = Ok (CW c) ->
    blen ks + blen cd + blen evk + 2000 < 256 ^ 127 ->
    sk_from_der sqrt_mod order_ok pubmul ed_sk known
      (match fmt with
       | Ssleay => tlv x30 (ecpriv_body ks (Some cd) evk)
       | Pkcs8 => tlv x30 (INT1 ++ tlv x30 (PKB ++ cd) ++ tlv x04 (tlv x30 (ecpriv_body ks None evk)))
       end) ven vex = Err EMalformedPoint.
Proof.
  intros sq ok pm eds known c ks k Hb Hn Hk. split.
  - exact (sk_from_string_range ok pm eds c ks k Hb Hn Hk).
  - intros cd evk fmt ven vex Hc HS. exact (sk_der_range_rejected sq ok pm eds known c ks cd evk k fmt ven vex Hb Hn Hk Hc HS).
Qed.
Print Assumptions C19_sk_range_rejected.

(* these shapes are exactly what SigningKey.to_der produces *)
Theorem C19_sk_der_shape : forall c k px py pe fmt ce d, sk_to_der c k px py pe fmt ce = Ok d ->
  exists evk ks cd, sk_to_string c k = Ok ks /\ curve_to_der c ce Uncompressed = Ok cd /\
    d = match fmt with
        | Ssleay => tlv x30 (ecpriv_body ks (Some cd) evk)
        | Pkcs8 => tlv x30 (INT1 ++ tlv x30 (PKB ++ cd) ++ tlv x04 (tlv x30 (ecpriv_body ks None evk)))
        end.
Proof.
  intros c k px py pe fmt ce d H. destruct (sk_to_der_inv _ _ _ _ _ _ _ _ H) as [_ [evk [ks [cd [_ [A [B C]]]]]]].
  exists evk, ks, cd. auto.
Qed.
Print Assumptions C19_sk_der_shape.

(* P-256: the scalars n and 0 as raw strings, and the P-256 SEC1 file of scalar n *)
Example C19_sk_range_example :
  let ok := fun (_ : curve) (_ _ : N) => true in
  let pm := fun (_ : curve) (_ : N) => @Err (N * N) EFuel in
  let eds := fun (w : bool) (e : bytes) => Ok (SkEd w e) in
  let sq := fun (_ : Z) (_ : N) => @None N in
  sk_from_string ok pm eds (CW NIST256p) (be 32 (c_n NIST256p)) = Err EMalformedPoint /\
  sk_from_string ok pm eds (CW NIST256p) (be 32 0) = Err EMalformedPoint /\
  sk_from_der sq ok pm eds known_curves
    (tlv x30 (ecpriv_body (be 32 (c_n NIST256p)) (Some (tlv x06 (oid_body 1 2 [840; 10045; 3; 1; 7]))) (x04 :: zeros 64)))
    true true = Err EMalformedPoint.
Proof. cbv zeta. repeat split; vm_compute; reflexivity. Qed.
Print Assumptions C19_sk_range_example.

(* ======== DER keys: the 17 generated curves, named and explicit parameters, SEC1 and PKCS#8 ======== *)

(* curve parameters, named and explicit, decode to the same curve object *)
Theorem C19_curve_der_roundtrip : forall sqrt_mod r ce pe cd, In r wrows ->
  (pe = Uncompressed \/ pe = Hybrid) -> curve_to_der (curve_of_row r) ce pe = Ok cd ->
  curve_from_der sqrt_mod known_curves cd true true = Ok (CW (curve_of_row r)).
Proof. intros sq r ce pe cd Hin Hpe Hcd. exact (proj1 (curve17_from_der sq r ce pe cd Hin Hpe Hcd)). Qed.
Print Assumptions C19_curve_der_roundtrip.

Theorem C19_vk_der_total : forall (sqrt_mod : Z -> N -> option N) r x y pe ce, In r wrows ->
  (pe = Uncompressed \/ pe = Hybrid) -> x < w_p r -> y < w_p r ->
  exists d, vk_to_der (curve_of_row r) x y pe ce = Ok d.
Proof. exact vk_to_der_total. Qed.
Print Assumptions C19_vk_der_total.

Theorem C19_vk_der_roundtrip :
  forall sqrt_mod order_ok ed_vk r x y pe ce d, In r wrows -> (pe = Uncompressed \/ pe = Hybrid) ->
  point_valid order_ok (curve_of_row r) x y ->
  vk_to_der (curve_of_row r) x y pe ce = Ok d ->
  vk_from_der sqrt_mod order_ok ed_vk known_curves d None true true = Ok (VkW (curve_of_row r) x y).
Proof. exact vk_der_roundtrip17. Qed.
Print Assumptions C19_vk_der_roundtrip.

Theorem C19_sk_der_roundtrip :
  forall sqrt_mod order_ok pubmul ed_sk r k px py pe fmt ce d, In r wrows ->
  1 <= k -> k < w_n r -> pubmul (curve_of_row r) k = Ok (px, py) -> px < w_p r -> py < w_p r ->
  sk_to_der (curve_of_row r) k px py pe fmt ce = Ok d ->
  sk_from_der sqrt_mod order_ok pubmul ed_sk known_curves d true true = Ok (SkW (curve_of_row r) k px py).
Proof. exact sk_der_roundtrip17. Qed.
Print Assumptions C19_sk_der_roundtrip.

(* ======== the 27-byte header of bec2format/crypto.py ================================================= *)

(* closed equality between the constant generated from crypto.py and the model encoder's output *)
Theorem C19_header27 : forall x y, x < c_p NIST256p -> y < c_p NIST256p ->
  vk_to_der NIST256p x y Uncompressed None = Ok (der_header ++ be 32 x ++ be 32 y) /\
  length der_header = 27%nat /\ der_header_len = 27.
Proof. intros x y Hx Hy. split; [exact (vk_to_der_p256 x y Hx Hy) | exact der_header_length]. Qed.
Print Assumptions C19_header27.

Theorem C19_raw_fmt_roundtrip :
  forall sqrt_mod order_ok ed_vk x y raw, point_valid order_ok NIST256p x y ->
  to_raw_bin_fmt der_header_len NIST256p x y = Ok raw ->
  raw = be 32 x ++ be 32 y /\
  create_from_raw_fmt sqrt_mod order_ok ed_vk known_curves der_header raw = Ok (VkW NIST256p x y).
Proof. exact raw_fmt_roundtrip. Qed.
Print Assumptions C19_raw_fmt_roundtrip.

(* ======== error-type closure =========================================================================== *)

(* every DER primitive raises nothing but UnexpectedDER, on every byte string *)
Theorem C19_errors_primitives : forall s m e,
  (read_length s = Err e -> e = EUnexpectedDER) /\
  (remove_sequence s = Err e -> e = EUnexpectedDER) /\
  (remove_integer s = Err e -> e = EUnexpectedDER) /\
  (remove_object s = Err e -> e = EUnexpectedDER) /\
  (read_number s = Err e -> e = EUnexpectedDER) /\
  (remove_octet_string s = Err e -> e = EUnexpectedDER) /\
  (remove_constructed s = Err e -> e = EUnexpectedDER) /\
  (remove_bitstring s m = Err e -> e = EUnexpectedDER).
Proof.
  intros s m e. repeat split.
  - apply read_length_err. - apply remove_sequence_err. - apply remove_integer_err. - apply remove_object_err.
  - apply read_number_err. - apply remove_octet_string_err. - apply remove_constructed_err.
  - apply remove_bitstring_err.
Qed.
Print Assumptions C19_errors_primitives.

(* key and curve decoders: every error is a documented one - UnexpectedDER, MalformedPointError
   (AssertionError), ValueError, UnknownCurveError - on every byte string, provided the external
   functions (EdDSA classes, scalar multiplication) keep to that set *)
Theorem C19_errors_vk_from_der :
  forall sqrt_mod order_ok ed_vk known,
  (forall w s e, ed_vk w s = Err e -> documented e) ->
  forall s ve ven vex e,
  vk_from_der sqrt_mod order_ok ed_vk known s ve ven vex = Err e -> documented e.
Proof. exact doi_vk_from_der. Qed.
Print Assumptions C19_errors_vk_from_der.

Theorem C19_errors_sk_from_der :
  forall sqrt_mod order_ok pubmul ed_sk known,
  (forall w s e, ed_sk w s = Err e -> documented e) ->
  (forall c k e, pubmul c k = Err e -> documented e) ->
  forall s ven vex e,
  sk_from_der sqrt_mod order_ok pubmul ed_sk known s ven vex = Err e -> documented e.
Proof. exact doi_sk_from_der. Qed.
Print Assumptions C19_errors_sk_from_der.

Theorem C19_errors_curve_from_der : forall sqrt_mod known d ven vex e,
  curve_from_der sqrt_mod known d ven vex = Err e -> documented e.
Proof. exact doi_curve_from_der. Qed.
Print Assumptions C19_errors_curve_from_der.

Theorem C19_errors_point_strings : forall sqrt_mod order_ok ed_vk c s validate ve e,
  vk_from_string sqrt_mod order_ok ed_vk (CW c) s validate ve = Err e -> e = EMalformedPoint \/ e = EValue.
Proof. exact vk_from_string_err_w. Qed.
Print Assumptions C19_errors_point_strings.

(* the plug-in (PublicEccKeyProxy.create_from_der_fmt) maps UnexpectedDER and MalformedPointError to
   ValueError; UnknownCurveError passes through (second statement: it really does) *)
Theorem C19_errors_plugin :
  forall sqrt_mod order_ok ed_vk known,
  (forall w s e, ed_vk w s = Err e -> documented e) ->
  forall d e, create_from_der_fmt sqrt_mod order_ok ed_vk known d = Err e -> In e [EValue; EUnknownCurve].
Proof. exact create_from_der_fmt_err. Qed.
Print Assumptions C19_errors_plugin.

Example C19_errors_plugin_unknown_curve_example : forall sqrt_mod order_ok ed_vk,
  create_from_der_fmt sqrt_mod order_ok ed_vk known_curves
    (H 27 0x3019301306072a8648ce3d020106082a8648ce3d03010803020004) = Err EUnknownCurve.
Proof. intros. vm_compute. reflexivity. Qed.
Print Assumptions C19_errors_plugin_unknown_curve_example.

(* ======== PEM (partial: base64 is an opaque pair of functions) ====================================== *)

(* the line framing of topem / unpem is the identity on the payload, for every base64 whose alphabet has no
   newline, white space or '-' and whose decoder inverts its encoder *)
Theorem C19_pem_framing_partial :
  forall (b64encode : bytes -> bytes) (b64decode : bytes -> result bytes),
  (forall d, Forall b64char (b64encode d)) -> (forall d, b64decode (b64encode d) = Ok d) ->
  forall der name, ~ In nl name -> unpem b64decode (topem b64encode der name) = Ok der.
Proof. exact unpem_topem. Qed.
Print Assumptions C19_pem_framing_partial.

Theorem C19_vk_pem_roundtrip_partial :
  forall (b64encode : bytes -> bytes) (b64decode : bytes -> result bytes) sqrt_mod order_ok ed_vk r x y pe ce pem,
  (forall d, Forall b64char (b64encode d)) -> (forall d, b64decode (b64encode d) = Ok d) ->
  In r wrows -> (pe = Uncompressed \/ pe = Hybrid) -> point_valid order_ok (curve_of_row r) x y ->
  vk_to_pem b64encode (curve_of_row r) x y pe ce = Ok pem ->
  vk_from_pem sqrt_mod order_ok ed_vk known_curves b64decode pem None true true = Ok (VkW (curve_of_row r) x y).
Proof. exact vk_pem_roundtrip17. Qed.
Print Assumptions C19_vk_pem_roundtrip_partial.

(* ======== the modular square root of compressed points (numbertheory.py) =========================== *)

(* pow(a, e, m) of the model (Barrett reduction, checked) is a^e mod m *)
Theorem C19_powmod : forall a e m : Z, (0 <= e)%Z -> powmod a e m = (a ^ e mod m)%Z.
Proof. exact powmod_spec. Qed.
Print Assumptions C19_powmod.

(* jacobi(a, n): the recursion ends on every input, with a value in {-1, 0, 1}, for odd n >= 3 (the
   model's fuel is never exhausted); JacobiError otherwise *)
Theorem C19_jacobi_terminates : forall a n : Z, (3 <= n)%Z -> (n mod 2 = 1)%Z ->
  exists r, jacobi a n = Ok r /\ (r = -1 \/ r = 0 \/ r = 1)%Z.
Proof. exact jacobi_terminates. Qed.
Print Assumptions C19_jacobi_terminates.

Theorem C19_jacobi_rejects : forall a n : Z, (n < 3 \/ n mod 2 <> 1)%Z -> jacobi a n = Err EJacobi.
Proof. exact jacobi_rejects. Qed.
Print Assumptions C19_jacobi_rejects.

(* p % 4 == 3 (16 of the 17 shipped curves): every quadratic residue gets a square root in [0, p),
   unless jacobi answers -1 *)
Theorem C19_sqrt_3mod4 : forall p a : Z, prime p -> (p mod 4 = 3)%Z -> (0 <= a < p)%Z ->
  (exists b, eqm p (b * b) a) -> jacobi a p <> Ok (-1)%Z ->
  exists r, square_root_mod_prime a p = Ok r /\ eqm p (r * r) a /\ (0 <= r < p)%Z.
Proof. exact sqrt_complete_3mod4. Qed.
Print Assumptions C19_sqrt_3mod4.

(* p % 8 == 5, both sub-branches (d = 1 and d = p - 1; the assert never fires); the second
   supplementary law 2^((p-1)/2) = -1 needed for d = p - 1 is derived from the square root of -1 that
   this sub-branch provides *)
Theorem C19_sqrt_5mod8 : forall p a : Z, prime p -> (p mod 8 = 5)%Z -> (0 <= a < p)%Z ->
  (exists b, eqm p (b * b) a) -> jacobi a p <> Ok (-1)%Z ->
  exists r, square_root_mod_prime a p = Ok r /\ eqm p (r * r) a /\ (0 <= r < p)%Z.
Proof. exact sqrt_complete_5mod8. Qed.
Print Assumptions C19_sqrt_5mod8.

(* soundness in EVERY branch (a = 0, p = 2, p % 4 = 3, p % 8 = 5, the Lucas/Cipolla loop with its
   "p is not prime" test): for prime p an answer is a square root.  Partial: the argument must be a
   quadratic residue or be recognised as a non-residue by jacobi; missing for the unconditional
   statement is "jacobi a p = -1 for every non-residue a" (quadratic reciprocity). *)
Theorem C19_sqrt_sound_partial : forall p a r : Z, prime p ->
  (exists b, eqm p (b * b) a) \/ jacobi a p = Ok (-1)%Z ->
  square_root_mod_prime a p = Ok r -> eqm p (r * r) a /\ (0 <= r < p)%Z.
Proof. exact sqrt_sound. Qed.
Print Assumptions C19_sqrt_sound_partial.

Theorem C19_sqrt_non_residue_rejected : forall p a : Z, (3 <= p)%Z -> (0 < a < p)%Z ->
  jacobi a p = Ok (-1)%Z -> square_root_mod_prime a p = Err ESquareRoot.
Proof. exact sqrt_non_residue_rejected. Qed.
Print Assumptions C19_sqrt_non_residue_rejected.

(* no hypothesis about jacobi for the 62 primes below 300 (closed computation over every argument):
   a root in [0, p) exactly for the residues, SquareRootError for every non-residue, in all branches *)
Theorem C19_sqrt_small_primes : forall p a : N, p < 300 -> a < p -> trial_prime (Z.of_N p) = true ->
  match square_root_mod_prime (Z.of_N a) (Z.of_N p) with
  | Ok r => ((r * r) mod Z.of_N p = Z.of_N a /\ 0 <= r < Z.of_N p)%Z
  | Err e => e = ESquareRoot /\ forall b, (0 <= b < Z.of_N p)%Z -> ((b * b) mod Z.of_N p)%Z <> Z.of_N a
  end.
Proof. exact sqrt_small_primes. Qed.
Print Assumptions C19_sqrt_small_primes.

Theorem C19_small_primes_are_prime : forall p : Z, trial_prime p = true -> prime p.
Proof. exact trial_prime_sound. Qed.
Print Assumptions C19_small_primes_are_prime.

(* ======== primality certificates ====================================================================== *)

(* Pocklington's criterion as checked by pock_main: F | N-1 fully factored into the primes q of l,
   N < F*F, a^(N-1) = 1 (mod N), gcd (a^((N-1)/q) - 1, N) = 1 for every q *)
Theorem C19_pocklington_criterion : forall (N a : Z) (l : list (Z * Z)),
  (forall qe, In qe l -> prime (fst qe)) -> pock_main N a l = true -> prime N.
Proof. exact pock_main_sound. Qed.
Print Assumptions C19_pocklington_criterion.

(* the recursive checker is sound *)
Theorem C19_pocklington : forall (c : cert) (N : Z), pock_check N c = true -> prime N.
Proof. exact pock_check_sound. Qed.
Print Assumptions C19_pocklington.

(* the committed certificate table of this file's cone passes the checker (11 field primes; the
   tables of the larger numbers: Proofs/PrimeCertsBig*.v) *)
Theorem C19_certificates_checked : certs_ok Proofs.PrimeCerts.prime_certs = true /\
  forall N c, In (N, c) Proofs.PrimeCerts.prime_certs -> prime N.
Proof. split; [exact Proofs.PrimeCerts.prime_certs_ok | exact Proofs.PrimeCerts.prime_certs_prime]. Qed.
Print Assumptions C19_certificates_checked.

(* the field primes of the generated curve rows: each value generated from curves.py is looked up in
   the committed certificate table; a changed constant finds no certificate.  Partial only in that
   the five field primes above 256 bits (p_big: brainpoolP320r1/P384r1/P512r1, NIST P-384, P-521) are
   carried by C19_primes in Properties/C19Big.v, together with all 17 group orders *)
Theorem C19_primes_partial : forall r, In r wrows -> named p_big (w_name r) = false ->
  prime (Z.of_N (w_p r)).
Proof. exact wrows_p_small_prime. Qed.
Print Assumptions C19_primes_partial.

Example C19_primes_partial_count :
  length (filter (fun r => negb (named p_big (w_name r))) wrows) = 12%nat /\
  named p_big (w_name w_NIST192p) = false /\ named p_big (w_name w_NIST224p) = false /\
  named p_big (w_name w_NIST256p) = false /\ named p_big (w_name w_SECP256k1) = false.
Proof. repeat split; vm_compute; reflexivity. Qed.
Print Assumptions C19_primes_partial_count.

(* ======== compressed points with the model's square root ============================================= *)

(* any curve object with a certified-prime field p = 3 (mod 4) *)
Theorem C19_point_roundtrip_compressed_3mod4_any :
  forall order_ok ed_vk c x y s validate ve,
  prime (Z.of_N (c_p c)) -> c_p c mod 4 = 3 ->
  point_valid order_ok c x y -> enc_allowed Compressed ve = true -> 2 <= orderlen (c_p c) ->
  jacobi (alpha_of c x) (Z.of_N (c_p c)) <> Ok (-1)%Z ->
  vk_to_string c x y Compressed = Ok s ->
  vk_from_string sqrt_mod_model order_ok ed_vk (CW c) s validate ve = Ok (VkW c x y).
Proof. exact vk_string_roundtrip_compressed_3mod4. Qed.
Print Assumptions C19_point_roundtrip_compressed_3mod4_any.

(* the shipped curves: primality comes from the certificates; remaining hypothesis: jacobi does not
   answer -1 on alpha = x^3 + a x + b (a quadratic residue, as the point is on the curve).  Here for
   the curves of this file's certificate table; for all 16 curves with p = 3 (mod 4) in C19Big.v *)
Theorem C19_point_roundtrip_compressed_3mod4 :
  forall order_ok ed_vk r x y s validate ve, In r wrows -> named p_big (w_name r) = false ->
  w_p r mod 4 = 3 ->
  point_valid order_ok (curve_of_row r) x y -> enc_allowed Compressed ve = true ->
  jacobi (alpha_of (curve_of_row r) x) (Z.of_N (w_p r)) <> Ok (-1)%Z ->
  vk_to_string (curve_of_row r) x y Compressed = Ok s ->
  vk_from_string sqrt_mod_model order_ok ed_vk (CW (curve_of_row r)) s validate ve = Ok (VkW (curve_of_row r) x y).
Proof.
  intros ok edv r x y s validate ve Hin Hsmall H4 PV Hve Hj Hs.
  apply (vk_string_roundtrip_compressed_3mod4 ok edv (curve_of_row r) x y s validate ve); try assumption.
  - apply wrows_p_small_prime; assumption.
  - apply (curve17_sizes r Hin).
Qed.
Print Assumptions C19_point_roundtrip_compressed_3mod4.

(* 16 of the 17 shipped field primes are 3 (mod 4); NIST P-224 (p = 1 mod 8) takes the Lucas/Cipolla loop *)
Example C19_3mod4_count : length (filter (fun r => w_p r mod 4 =? 3) wrows) = 16%nat /\ length wrows = 17%nat.
Proof. split; vm_compute; reflexivity. Qed.
Print Assumptions C19_3mod4_count.

(* the generator of secp256k1 in compressed form decodes, through the model's own square root, to the
   generator; the other tag byte gives the opposite point; an abscissa without a point is rejected *)
Example C19_compressed_nonvacuous :
  let c := curve_of_row w_SECP256k1 in let x := c_gx c in let y := c_gy c in
  let ok := fun (_ : curve) (_ _ : N) => true in
  let edv := fun (w : bool) (e : bytes) => Ok (VkEd w e) in
  jacobi (alpha_of c x) (Z.of_N (c_p c)) = Ok 1%Z /\
  vk_from_string sqrt_mod_model ok edv (CW c) (x02 :: be 32 x) true encs_all = Ok (VkW c x y) /\
  vk_from_string sqrt_mod_model ok edv (CW c) (x03 :: be 32 x) true encs_all = Ok (VkW c x (c_p c - y)) /\
  vk_from_string sqrt_mod_model ok edv (CW c) (x02 :: be 32 5) true encs_all = Err EMalformedPoint.
Proof.
  cbv zeta. split; [vm_compute; reflexivity|]. split; [vm_compute; reflexivity|].
  split; vm_compute; reflexivity.
Qed.
Print Assumptions C19_compressed_nonvacuous.

(* ======== non-vacuity ==================================================================================== *)

(* the generator of P-256 is a valid point; its DER encoding is header ++ coordinates, decodes to the same
   key, loses its last byte / gains a byte and is rejected *)
Example C19_nonvacuous :
  let c := NIST256p in let x := c_gx c in let y := c_gy c in
  let ok := fun (_ : curve) (_ _ : N) => true in
  let sq := fun (_ : Z) (_ : N) => @None N in
  let edv := fun (w : bool) (e : bytes) => Ok (VkEd w e) in
  point_valid ok c x y /\
  exists d, vk_to_der c x y Uncompressed None = Ok d /\ blen d = 91 /\
    vk_from_der sq ok edv known_curves d None true true = Ok (VkW c x y) /\
    vk_from_der sq ok edv known_curves (firstn 90 d) None true true = Err EUnexpectedDER /\
    vk_from_der sq ok edv known_curves (d ++ [x00]) None true true = Err EUnexpectedDER.
Proof.
  cbv zeta. split.
  - unfold point_valid. repeat split; try (vm_compute; reflexivity); try (left; reflexivity).
    vm_compute. discriminate.
  - eexists. split; [vm_compute; reflexivity|]. repeat split; vm_compute; reflexivity.
Qed.
Print Assumptions C19_nonvacuous.
