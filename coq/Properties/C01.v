(* C01 - BF3 write-then-read returns the same file.
   Model: Model/Bf3.v (hand model of Bf3Component / Bf3File writer and reader,
   text layer, newline translation of path I/O), tied to /repo by the
   correspondence of tools/props/C01.py.  The cipher is the registered adapter
   (zero-padded CBC, Model/Cbc.v) over ANY block function with D k (E k b) = b
   on 16-byte blocks; C16 shows the bundled AES is such a function. *)
From Coq Require Import List NArith ZArith.
From Coq Require Import Init.Byte.
From Bec2 Require Import Base.Result Base.Bytes Base.Reader Gen.Consts Model.Cbc Model.Bf3
  Proofs.CbcProofs Proofs.Bf3Proofs Proofs.Bf3TextProofs.
Import ListNotations.
Open Scope N_scope.

Section C01.
  Variable E D : bytes -> bytes -> bytes.
  Hypothesis E_len : forall k b, length b = 16%nat -> length (E k b) = 16%nat.
  Hypothesis DE : forall k b, length b = 16%nat -> D k (E k b) = b.

  Let enc := adapter_encrypt E.
  Let dec := adapter_decrypt D.
  Let mac := adapter_mac E.

  Lemma a_mac_len : forall k iv d m, d <> [] -> mac k iv d = Ok m -> blen m = 16.
  Proof. exact (adapter_mac_len E D E_len DE). Qed.
  Lemma a_enc_len : forall k d c, blen d mod 16 = 0 -> enc k None d = Ok c -> blen c = blen d.
  Proof. intros k d c Hm He. exact (proj2 (adapter_inverse E D E_len DE k None d c Hm He)). Qed.
  Lemma a_dec_enc : forall k d c, blen d mod 16 = 0 -> enc k None d = Ok c -> dec k None c = Ok d.
  Proof. intros k d c Hm He. exact (proj1 (adapter_inverse E D E_len DE k None d c Hm He)). Qed.

  (* binary level: every component list the writer accepts, every offset (header
     length), every key, MAC checking on or off *)
  Theorem C01_binary : forall cs off k b check,
    Forall wf_comp cs -> to_binary enc mac cs off k = Ok b ->
    from_binary dec mac (mkR b off) check k = Ok (map view cs).
  Proof. intros. eapply (from_binary_to_binary enc dec mac a_mac_len a_enc_len a_dec_enc); eassumption. Qed.

  (* text level, through a stream *)
  Theorem C01_text_stream : forall f k t check,
    wf_file f -> write_file enc mac f k = Ok t ->
    read_file dec mac t check k = Ok (file_view f).
  Proof. intros. eapply (read_write_file enc dec mac a_mac_len a_enc_len a_dec_enc); eassumption. Qed.

  (* text level, through a file path: "\n" -> "\r\n" on write, universal newlines on read *)
  Theorem C01_text_path : forall f k t check,
    wf_file f -> comments_no_cr (f_comments f) -> write_file enc mac f k = Ok t ->
    read_file dec mac (universal_in (crlf_out t)) check k = Ok (file_view f).
  Proof.
    intros f k t check Hwf Hcr Hw.
    rewrite universal_crlf.
    - eapply (read_write_file enc dec mac a_mac_len a_enc_len a_dec_enc); eassumption.
    - unfold write_file in Hw.
      destruct (to_binary enc mac (f_comps f) (blen BF3_FILE_SIG) k); cbn [bind] in Hw; [|discriminate].
      injection Hw as <-. apply write_bf3_format_no_cr, Hcr.
  Qed.

  (* plain components (the property's quantifier): the file comes back unchanged *)
  Theorem C01_plain_unchanged : forall f k t check,
    wf_file f -> Forall (fun c => c_enc c = false) (f_comps f) ->
    write_file enc mac f k = Ok t ->
    read_file dec mac t check k = Ok f.
  Proof.
    intros f k t check Hwf Hp Hw.
    rewrite (read_write_file enc dec mac a_mac_len a_enc_len a_dec_enc f k t check Hwf Hw).
    unfold file_view. rewrite (view_plain _ Hp). destruct f; reflexivity.
  Qed.
End C01.
Print Assumptions C01_binary.
Print Assumptions C01_text_stream.
Print Assumptions C01_text_path.
Print Assumptions C01_plain_unchanged.

(* the hex text decodes to the bytes for every binary (any length) *)
Theorem C01_hex_roundtrip : forall b,
  hex2bin (hex_lines (N.to_nat (n_hex_lines (blen b))) b) = Ok b.
Proof. exact hex2bin_hex_lines. Qed.
Print Assumptions C01_hex_roundtrip.

(* comments: keys without ':' / newline, values without surrounding whitespace / newline *)
Theorem C01_comments_roundtrip : forall cm raw,
  wf_comments cm -> parse_bf3_file (write_bf3_format cm raw) = Ok (raw, cm).
Proof. exact parse_bf3_write. Qed.
Print Assumptions C01_comments_roundtrip.

(* non-vacuity: a concrete 2-component file with comments meets wf_file, the toy
   cipher meets the cipher hypotheses, the writer accepts it and it reads back *)
Definition ex_file : bf3 :=
  mkBf3 [([107; 49], [118; 58; 120]); ([], [])]
        [mkComp [(0xC3, [x02]); (0x00, [])] [x01; x00; x00] 2 false;
         mkComp [(0xC2, [x02])] [x09; x08; x07; x00] 4 true].
Example C01_nonvacuous :
  (let* t := write_file (adapter_encrypt toyE) (adapter_mac toyE) ex_file (zeros 16) in
   read_file (adapter_decrypt toyD) (adapter_mac toyE) t true (zeros 16)) = Ok (file_view ex_file).
Proof. vm_compute. reflexivity. Qed.
Print Assumptions C01_nonvacuous.

Example C01_wf_example : wf_file ex_file.
Proof.
  assert (ND2 : forall (A : Type) (a b : A), a <> b -> NoDup [a; b]).
  { intros A a b H. constructor; [intros [E|[]]; congruence|]. constructor; [intros []|constructor]. }
  split.
  - split.
    + apply ND2. discriminate.
    + apply Forall_cons; [|apply Forall_cons; [|apply Forall_nil]]; cbn [fst snd].
      * split; [split; intros [H|[H|[]]]; discriminate|].
        split; [intros [H|[H|[H|[]]]]; discriminate|]. split; reflexivity.
      * split; [split; intros []|]. split; [intros []|]. split; reflexivity.
  - apply Forall_cons; [|apply Forall_cons; [|apply Forall_nil]]; unfold wf_comp;
      cbn [c_desc c_blob c_alen c_enc map fst].
    + split; [apply ND2; discriminate|]. split; [discriminate|].
      split; [split; intro H; discriminate H|].
      split; [discriminate|intro H; discriminate H].
    + split; [constructor; [intros []|constructor]|]. split; [discriminate|].
      split; [split; intro H; discriminate H|]. split; reflexivity.
Qed.
Print Assumptions C01_wf_example.
