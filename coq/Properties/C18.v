(* C18 - Signatures verify, reject tampering, interoperate and follow RFC 6979.

   Ties: Gen/Rfc6979.v (bits2int, bits2octets, the integer tests of generate_k) and
   Gen/EcdsaFrag.v (range tests, u1, u2, k, ks, kt, the blinding selection, r, s and the
   zero tests of Public_key.verifies / Private_key.sign) are regenerated from
   ecdsa/rfc6979.py and ecdsa/ecdsa.py on every run; Model/Ecdsa.v is the hand model of
   keys.py / util.py / the used part of der.py / numbertheory.inverse_mod / generate_k and is
   tied by the correspondence run.

   The elliptic curve is abstract (property C17 is about its arithmetic): a type of points
   with addition, scalar multiplication and x-coordinate; the group-law facts used are
   hypotheses (spelled out in C18_complete, bundled as [group_laws] elsewhere) and are
   PROVED for the model group Z_n (C18_nonvacuous, C18_complete_Zn).
   hmac is abstract (a function argument of the theorems).

   PARTIAL (not provable, only searched on the implementation by tools/props/C18.py):
   - "verification fails when any single bit of the message is changed": depends on the hash;
   - "... of the encoded signature": proved here is that a changed encoding is rejected with
     the documented error or decodes to a DIFFERENT (r, s) (C18_tamper_partial); that a
     different (r, s) does not verify holds only up to x-coordinate coincidences;
   - agreement with OpenSSL in both directions (external oracle);
   - RFC 6979 Appendix A vectors (run as tests against the implementation and the model). *)
From Coq Require Import List NArith ZArith Znumtheory Lia.
From Coq Require Import Init.Byte.
From Bec2 Require Import Base.Result Base.Bytes Gen.Rfc6979 Gen.EcdsaFrag Model.Ecdsa
  Proofs.EcdsaProofs Proofs.EcdsaCodecProofs.
Import ListNotations.
Open Scope Z_scope.

(* ---- completeness ------------------------------------------------------- *)

(* A signature made by Private_key.sign with any nonce 1 <= k <= n-1 (whenever sign does
   not raise) verifies under the matching public point d*G. *)
Theorem C18_complete :
  forall (point : Type) (padd : point -> point -> point) (smul : Z -> point -> point)
         (xcoord : point -> option Z) (G : point) (n : Z) (infinity : point),
  prime n ->
  (forall a b, smul (a + b) G = padd (smul a G) (smul b G)) ->
  (forall a b, smul a (smul b G) = smul (a * b) G) ->
  smul n G = infinity ->
  (forall a, smul a infinity = infinity) ->
  (forall a, padd (smul a G) infinity = smul a G) ->
  forall d e k r s, 1 <= k <= n - 1 ->
    sign point smul xcoord G n d e k = SOk (r, s) ->
    verifies point padd smul xcoord G n (smul d G) e r s = Ok true.
Proof. exact verify_sign. Qed.
Print Assumptions C18_complete.

(* the k + n / k + 2n blinding (generated sign_ks, sign_kt) does not change k*G *)
Theorem C18_blinding :
  forall (point : Type) (padd : point -> point -> point) (smul : Z -> point -> point)
         (G : point) (n : Z) (infinity : point),
  (forall a b, smul (a + b) G = padd (smul a G) (smul b G)) ->
  (forall a b, smul a (smul b G) = smul (a * b) G) ->
  smul n G = infinity ->
  (forall a, smul a infinity = infinity) ->
  (forall a, padd (smul a G) infinity = smul a G) ->
  forall k, smul (sign_ks k n) G = smul k G /\ smul (sign_kt (sign_ks k n) n) G = smul k G.
Proof. exact blinding. Qed.
Print Assumptions C18_blinding.

(* with k in range, sign raises nothing but RSZeroError *)
Theorem C18_sign_errors :
  forall point padd smul xcoord G n infinity, group_laws point padd smul xcoord G n infinity ->
  forall d e k err, 1 <= k <= n - 1 ->
    sign point smul xcoord G n d e k = SErr err -> err = SRSZero.
Proof.
  intros point padd smul xcoord G n infinity [H1 H2 H3 H4 H5 H6 H7 H8 H9].
  exact (sign_errors point padd smul xcoord G n infinity H1 H2 H3 H4 H5 H6 H7 H8).
Qed.
Print Assumptions C18_sign_errors.

(* end to end on digests, every encoding with and without canonisation:
   verify_digest(sign_digest(...)) succeeds *)
Theorem C18_complete_encoded :
  forall point padd smul xcoord G n infinity, group_laws point padd smul xcoord G n infinity ->
  forall d digest k allow,
    (forall sig, sign_digest point smul xcoord G n sigencode_string d digest k allow = SOk sig ->
       verify_digest point padd smul xcoord G n sigdecode_string (smul d G) sig digest allow = SOk true) /\
    (forall sig, sign_digest point smul xcoord G n sigencode_strings d digest k allow = SOk sig ->
       verify_digest point padd smul xcoord G n sigdecode_strings_pair (smul d G) sig digest allow = SOk true) /\
    (n <= 256 ^ 1000 ->
     forall sig, sign_digest point smul xcoord G n sigencode_der d digest k allow = SOk sig ->
       verify_digest point padd smul xcoord G n sigdecode_der (smul d G) sig digest allow = SOk true) /\
    (forall sig, sign_digest point smul xcoord G n sigencode_string_canonize d digest k allow = SOk sig ->
       verify_digest point padd smul xcoord G n sigdecode_string (smul d G) sig digest allow = SOk true) /\
    (forall sig, sign_digest point smul xcoord G n sigencode_strings_canonize d digest k allow = SOk sig ->
       verify_digest point padd smul xcoord G n sigdecode_strings_pair (smul d G) sig digest allow = SOk true) /\
    (n <= 256 ^ 1000 ->
     forall sig, sign_digest point smul xcoord G n sigencode_der_canonize d digest k allow = SOk sig ->
       verify_digest point padd smul xcoord G n sigdecode_der (smul d G) sig digest allow = SOk true).
Proof.
  intros point padd smul xcoord G n infinity GL d digest k allow.
  repeat split; intros.
  - eapply complete_string; eassumption.
  - eapply complete_strings; eassumption.
  - eapply complete_der; eassumption.
  - eapply complete_string_canonize; eassumption.
  - eapply complete_strings_canonize; eassumption.
  - eapply complete_der_canonize; eassumption.
Qed.
Print Assumptions C18_complete_encoded.

(* closed instance: ECDSA over the cyclic group Z_n, every prime n *)
Theorem C18_complete_Zn : forall n d e k r s, prime n -> 1 <= k <= n - 1 ->
  sign Z (zn_smul n) (zn_x n) 1 n d e k = SOk (r, s) ->
  verifies Z (zn_padd n) (zn_smul n) (zn_x n) 1 n (zn_smul n d 1) e r s = Ok true.
Proof. exact verify_sign_zn. Qed.
Print Assumptions C18_complete_Zn.

(* ---- range --------------------------------------------------------------- *)

(* r or s outside [1, n-1] (0, n, n+1, 2^k >= n, negative, r+n, s+n, ...) is rejected;
   no hypothesis on the curve at all *)
Theorem C18_range :
  forall (point : Type) padd smul xcoord (G : point) n Q e r s,
  ~ (1 <= r <= n - 1) \/ ~ (1 <= s <= n - 1) ->
  verifies point padd smul xcoord G n Q e r s = Ok false.
Proof. exact verifies_range. Qed.
Print Assumptions C18_range.

Theorem C18_range_instances :
  forall (point : Type) padd smul xcoord (G : point) n Q e r s k,
  0 <= k -> n <= 2 ^ k -> 0 <= r -> 0 <= s ->
  let V := verifies point padd smul xcoord G n Q e in
  V 0 s = Ok false /\ V n s = Ok false /\ V (n + 1) s = Ok false /\ V (2 ^ k) s = Ok false /\
  V (r + n) s = Ok false /\ V (- r) s = Ok false /\
  V r 0 = Ok false /\ V r n = Ok false /\ V r (n + 1) = Ok false /\ V r (2 ^ k) = Ok false /\
  V r (s + n) = Ok false /\ V r (- s) = Ok false.
Proof.
  intros. repeat split; apply verifies_range; lia.
Qed.
Print Assumptions C18_range_instances.

(* ... and VerifyingKey.verify_digest then raises (BadSignatureError unless the digest
   itself was refused) *)
Theorem C18_range_verify_digest :
  forall (point : Type) padd smul xcoord (G : point) n (S : Type) (sigdecode : S -> Z -> sres (Z * Z))
         Q sig digest allow r s,
  sigdecode sig n = SOk (r, s) ->
  ~ (1 <= r <= n - 1) \/ ~ (1 <= s <= n - 1) ->
  exists e, verify_digest point padd smul xcoord G n sigdecode Q sig digest allow = SErr e /\
            (e = SBadSig \/ e = SBadDigest \/ e = SBase EValue).
Proof. intros point padd smul xcoord G n S. exact (verify_digest_range point padd smul xcoord G n). Qed.
Print Assumptions C18_range_verify_digest.

(* ---- no TypeError at the point at infinity ------------------------------------ *)

(* Public_key.verifies never raises for prime n: out-of-range (r, s) and the case
   u1*G + u2*Q = INFINITY (crafted r = -e/d mod n; INFINITY has no x-coordinate) both
   return False.  No group law is needed. *)
Theorem C18_verifies_total :
  forall (point : Type) padd smul xcoord (G : point) n, prime n ->
  forall Q e r s, exists b, verifies point padd smul xcoord G n Q e r s = Ok b.
Proof. intros point padd smul xcoord G n Hp. exact (verifies_total point padd smul xcoord G n Hp). Qed.
Print Assumptions C18_verifies_total.

Theorem C18_verifies_infinity :
  forall (point : Type) padd smul xcoord (G : point) n Q e r s c,
  1 <= r <= n - 1 -> 1 <= s <= n - 1 -> inverse_mod s n = Ok c ->
  xcoord (padd (smul (verifies_u1 e c n) G) (smul (verifies_u2 r c n) Q)) = None ->
  verifies point padd smul xcoord G n Q e r s = Ok false.
Proof. exact verifies_infinity. Qed.
Print Assumptions C18_verifies_infinity.

(* hence verify_digest raises only BadSignatureError (or BadDigestError / ValueError for the
   digest argument itself) for every decoder that raises only its documented errors *)
Theorem C18_verify_digest_errors :
  forall (point : Type) padd smul xcoord (G : point) n, prime n ->
  forall (S : Type) (sigdecode : S -> Z -> sres (Z * Z)) Q sig digest allow e,
  (forall e', sigdecode sig n = SErr e' -> e' = SMalformed \/ e' = SBase EUnexpectedDER) ->
  verify_digest point padd smul xcoord G n sigdecode Q sig digest allow = SErr e ->
  e = SBadSig \/ e = SBadDigest \/ e = SBase EValue.
Proof.
  intros point padd smul xcoord G n Hp S. exact (verify_digest_errors point padd smul xcoord G n Hp).
Qed.
Print Assumptions C18_verify_digest_errors.

(* the crafted signature on Z_13: d = 5, e = 9, r = -e/d = 6, any s: u1*G + u2*Q = 0 *)
Example C18_infinity_example :
  zn_x 13 (zn_padd 13 (zn_smul 13 (verifies_u1 9 2 13) 1) (zn_smul 13 (verifies_u2 6 2 13) (zn_smul 13 5 1))) = None /\
  inverse_mod 7 13 = Ok 2 /\
  verifies Z (zn_padd 13) (zn_smul 13) (zn_x 13) 1 13 (zn_smul 13 5 1) 9 6 7 = Ok false.
Proof. repeat split; vm_compute; reflexivity. Qed.
Print Assumptions C18_infinity_example.

(* ---- digest -------------------------------------------------------------- *)

(* allow_truncate: the number signed is bits2int(digest, bit_length(n)) -- for every digest
   length and every order -- and bits2int is "the leftmost min(qlen, 8*len) bits" *)
Theorem C18_digest : forall digest n, 0 < n ->
  truncate_and_convert_digest digest n true = lift (bits2int digest (bit_length n)) /\
  (digest <> [] ->
   truncate_and_convert_digest digest n true = SOk (leftmost_bits (bit_length n) digest)).
Proof.
  intros digest n Hn. split; [apply truncate_is_bits2int; exact Hn|].
  intro Hd. rewrite truncate_is_bits2int by exact Hn.
  rewrite bits2int_leftmost; [reflexivity | exact Hd |].
  rewrite bit_length_pos by exact Hn. pose proof (Z.log2_nonneg n). lia.
Qed.
Print Assumptions C18_digest.

Theorem C18_bits2int : forall data qlen, data <> [] -> 0 <= qlen ->
  bits2int data qlen = Ok (leftmost_bits qlen data).
Proof. exact bits2int_leftmost. Qed.
Print Assumptions C18_bits2int.

(* ---- codecs -------------------------------------------------------------- *)

Theorem C18_codecs_roundtrip : forall n r s, 0 <= r < n -> 0 <= s < n ->
  (exists b, sigencode_string r s n = Ok b /\ sigdecode_string b n = SOk (r, s)) /\
  (exists b, sigencode_strings r s n = Ok b /\ sigdecode_strings [fst b; snd b] n = SOk (r, s)) /\
  (n <= 256 ^ 1000 ->
   exists b, sigencode_der r s n = Ok b /\ sigdecode_der b n = SOk (r, s) /\
             forall junk, junk <> [] -> sigdecode_der (b ++ junk) n = SErr (SBase EUnexpectedDER)).
Proof.
  intros n r s Hr Hs. split; [|split].
  - eexists. split; [apply sigencode_string_ok; assumption | apply sigdecode_string_encode; assumption].
  - eexists. split; [apply sigencode_strings_ok; assumption | apply sigdecode_strings_encode; assumption].
  - intro Hn.
    pose proof (small_of_order n r Hn Hr) as Sr. pose proof (small_of_order n s Hn Hs) as Ss.
    destruct (sigencode_der_total n (Z.to_N r) (Z.to_N s) Sr Ss) as [b Hb].
    pose proof (sigdecode_der_encode n (Z.to_N r) (Z.to_N s) Sr Ss b) as Hd.
    rewrite !Z2N.id in * by lia. exists b. split; [exact Hb|]. split.
    + specialize (Hd [] Hb). rewrite app_nil_r in Hd. exact Hd.
    + intros junk Hj. specialize (Hd junk Hb). destruct junk; [congruence | exact Hd].
Qed.
Print Assumptions C18_codecs_roundtrip.

(* canonisation: s' is s or n - s; (r, n-s) verifies iff (r, s) does *)
Theorem C18_codecs_canonize :
  forall point padd smul xcoord G n infinity, group_laws point padd smul xcoord G n infinity ->
  forall d e r s s', 1 <= s <= n - 1 -> canonize s n = Ok s' ->
    (s' = s \/ s' = n - s) /\
    verifies point padd smul xcoord G n (smul d G) e r s' =
    verifies point padd smul xcoord G n (smul d G) e r s.
Proof.
  intros point padd smul xcoord G n infinity [H1 H2 H3 H4 H5 H6 H7 H8 H9] d e r s s' Hs Hc.
  apply canonize_cases in Hc as [[-> _]|[-> _]].
  - split; [left|]; reflexivity.
  - split; [right; reflexivity|].
    exact (verifies_neg_s point padd smul xcoord G n infinity H1 H2 H3 H4 H5 H6 H9 d e r s Hs).
Qed.
Print Assumptions C18_codecs_canonize.

(* "s <= n/2 after canonisation": the code compares with the FLOAT n / 2, so what holds
   for every order is n/2 up to half an ulp of a double; exact for orders of <= 53 bits *)
Theorem C18_codecs_canonize_low_s : forall s n s', 0 < n -> canonize s n = Ok s' ->
  (bit_length n <= 53 -> 2 * s' <= n) /\
  (53 < bit_length n -> 2 * s' <= n + 2 ^ (bit_length n - 54)).
Proof. exact canonize_low_s. Qed.
Print Assumptions C18_codecs_canonize_low_s.

Theorem C18_codecs_canonize_low_s_partial : forall s n s', 0 < n -> bit_length n <= 53 ->
  canonize s n = Ok s' -> 2 * s' <= n.
Proof. intros s n s' Hn Hb Hc. apply (canonize_low_s s n s' Hn Hc). exact Hb. Qed.
Print Assumptions C18_codecs_canonize_low_s_partial.

(* the exact statement "s' <= n/2" fails for the order of NIST P-256 (float(n/2) < n/2) *)
Definition order_P256 : Z := 0xFFFFFFFF00000000FFFFFFFFFFFFFFFFBCE6FAADA7179E84F3B9CAC2FC632551.
Example C18_codecs_canonize_low_s_refuted :
  exists s s', 1 <= s <= order_P256 - 1 /\ canonize s order_P256 = Ok s' /\ order_P256 < 2 * s'.
Proof.
  exists (float_twice_half order_P256 / 2 + 1). eexists.
  split; [vm_compute; split; discriminate|]. split; [vm_compute; reflexivity | vm_compute; reflexivity].
Qed.
Print Assumptions C18_codecs_canonize_low_s_refuted.

(* wrong lengths, junk, non-minimal DER: the documented errors, and verify_digest turns
   them into BadSignatureError *)
Theorem C18_codecs_malformed :
  (forall sig n, Z.of_N (blen sig) <> 2 * orderlen n -> sigdecode_string sig n = SErr SMalformed) /\
  (forall l n, (forall a b, l = [a; b] -> Z.of_N (blen a) <> orderlen n \/ Z.of_N (blen b) <> orderlen n) ->
     sigdecode_strings l n = SErr SMalformed) /\
  (forall b n e, sigdecode_der b n = SErr e -> e = SBase EUnexpectedDER) /\
  (forall b n r s, sigdecode_der b n = SOk (r, s) -> sigencode_der r s n = Ok b /\ 0 <= r /\ 0 <= s) /\
  (forall sig n r s, 0 <= n -> sigdecode_string sig n = SOk (r, s) ->
     sig = be (Z.to_nat (orderlen n)) (Z.to_N r) ++ be (Z.to_nat (orderlen n)) (Z.to_N s)).
Proof.
  split; [exact sigdecode_string_length|]. split; [exact sigdecode_strings_shape|].
  split; [exact sigdecode_der_errors|]. split; [exact sigdecode_der_exact|].
  intros sig n r s Hn H. exact (proj1 (sigdecode_string_exact sig n r s Hn H)).
Qed.
Print Assumptions C18_codecs_malformed.

Theorem C18_malformed_is_bad_signature :
  forall (point : Type) padd smul xcoord (G : point) n (S : Type) (sigdecode : S -> Z -> sres (Z * Z))
         Q sig digest allow number,
  truncate_and_convert_digest digest n allow = SOk number ->
  sigdecode sig n = SErr SMalformed \/ sigdecode sig n = SErr (SBase EUnexpectedDER) ->
  verify_digest point padd smul xcoord G n sigdecode Q sig digest allow = SErr SBadSig.
Proof. intros point padd smul xcoord G n S. exact (verify_digest_malformed point padd smul xcoord G n). Qed.
Print Assumptions C18_malformed_is_bad_signature.

(* tampering with the encoding (partial, see the header): a different byte string never
   decodes to the same (r, s) *)
Theorem C18_tamper_partial :
  (forall b b' n p, sigdecode_der b n = SOk p -> sigdecode_der b' n = SOk p -> b = b') /\
  (forall b b' n p, 0 <= n -> sigdecode_string b n = SOk p -> sigdecode_string b' n = SOk p -> b = b').
Proof. split; [exact sigdecode_der_inj | exact sigdecode_string_inj]. Qed.
Print Assumptions C18_tamper_partial.

(* ---- RFC 6979 ------------------------------------------------------------ *)

(* bits2octets (generated) = int2octets(bits2int(h1) mod q), RFC 6979 2.3.4 *)
Theorem C18_bits2octets : forall data q, 0 < q -> data <> [] ->
  bits2octets bit_length number_to_string_crop data q =
  Ok (be (Z.to_nat ((rfc_qlen q + 7) / 8)) (Z.to_N (leftmost_bits (rfc_qlen q) data mod q))).
Proof.
  intros data q Hq Hd. rewrite (bits2octets_rfc data q Hq Hd).
  unfold rfc_qlen. rewrite <- (bit_length_pos q Hq), <- (orderlen_rolen q Hq). reflexivity.
Qed.
Print Assumptions C18_bits2octets.

(* generate_k (first attempt, retry_gen = 0) returns the FIRST candidate of the RFC 6979
   section 3.2 stream (seeded with int2octets(x) || bits2octets(h1) || extra) that lies in
   [1, q-1]; hmac is any function with a fixed output length *)
Theorem C18_rfc6979 :
  forall (hname : Type) (hmac : hname -> bytes -> bytes -> bytes) (digest_size : hname -> Z)
         (h : hname) (q x : Z) (data extra : bytes),
  (forall key m, Z.of_N (blen (hmac h key m)) = digest_size h) -> 1 <= digest_size h ->
  0 < q -> 0 <= x < q -> data <> [] ->
  let cand := rfc_candidate hname hmac h (digest_size h) q
                (int2octets_x q x) (bits2octets_h1 q data) extra in
  forall fuel k,
  generate_k hname hmac digest_size fuel q x h data 0 extra = Ok k ->
  exists j, k = cand j /\ 1 <= k <= q - 1 /\ forall i, (i < j)%nat -> ~ (1 <= cand i <= q - 1).
Proof.
  intros hname hmac digest_size h q x data extra H1 H2 H3 H4 H5 cand fuel k.
  exact (generate_k_first hname hmac digest_size h q x data extra H1 H2 H3 H4 H5 fuel k).
Qed.
Print Assumptions C18_rfc6979.

(* retry_gen = m > 0 (used after an RSZeroError): exactly m suitable candidates are skipped *)
Theorem C18_rfc6979_retry :
  forall (hname : Type) (hmac : hname -> bytes -> bytes -> bytes) (digest_size : hname -> Z)
         (h : hname) (q x : Z) (data extra : bytes),
  (forall key m, Z.of_N (blen (hmac h key m)) = digest_size h) -> 1 <= digest_size h ->
  0 < q -> 0 <= x < q -> data <> [] ->
  forall fuel retry k,
  generate_k hname hmac digest_size fuel q x h data retry extra = Ok k ->
  exists j, k = rfc_candidate hname hmac h (digest_size h) q (int2octets_x q x) (bits2octets_h1 q data) extra j /\
            1 <= k <= q - 1 /\
            rfc_good_before hname hmac h (digest_size h) q (int2octets_x q x) (bits2octets_h1 q data) extra j
              = Z.max 0 retry.
Proof.
  intros hname hmac digest_size h q x data extra H1 H2 H3 H4 H5 fuel retry k.
  exact (generate_k_sound hname hmac digest_size h q x data extra H1 H2 H3 H4 H5 fuel retry k).
Qed.
Print Assumptions C18_rfc6979_retry.

(* and conversely: if the j-th candidate is the (retry+1)-th suitable one, fuel > j suffices *)
Theorem C18_rfc6979_complete :
  forall (hname : Type) (hmac : hname -> bytes -> bytes -> bytes) (digest_size : hname -> Z)
         (h : hname) (q x : Z) (data extra : bytes),
  (forall key m, Z.of_N (blen (hmac h key m)) = digest_size h) -> 1 <= digest_size h ->
  0 < q -> 0 <= x < q -> data <> [] ->
  forall fuel retry j,
  let cand := rfc_candidate hname hmac h (digest_size h) q (int2octets_x q x) (bits2octets_h1 q data) extra in
  1 <= cand j <= q - 1 ->
  rfc_good_before hname hmac h (digest_size h) q (int2octets_x q x) (bits2octets_h1 q data) extra j = Z.max 0 retry ->
  (j < fuel)%nat ->
  generate_k hname hmac digest_size fuel q x h data retry extra = Ok (cand j).
Proof.
  intros hname hmac digest_size h q x data extra H1 H2 H3 H4 H5 fuel retry j.
  exact (generate_k_complete hname hmac digest_size h q x data extra H1 H2 H3 H4 H5 fuel retry j).
Qed.
Print Assumptions C18_rfc6979_complete.

(* the generated candidate test is 1 <= secret <= q - 1 *)
Theorem C18_rfc6979_accept : forall c q, generate_k_accept c q = true <-> 1 <= c <= q - 1.
Proof.
  intros c q. rewrite accept_good, Bool.andb_true_iff, !Z.leb_le. tauto.
Qed.
Print Assumptions C18_rfc6979_accept.

(* ---- modular inverse ------------------------------------------------------ *)
Theorem C18_inverse_mod : forall a m c, 0 < m -> inverse_mod a m = Ok c ->
  0 <= c < m /\ (a = 0 \/ (m | a * c - 1)).
Proof. exact inverse_mod_spec. Qed.
Print Assumptions C18_inverse_mod.

(* ---- non-vacuity ---------------------------------------------------------- *)

Lemma prime_13 : prime 13.
Proof.
  apply prime_intro; [lia|]. intros k Hk. apply Zgcd_1_rel_prime.
  assert (C : k = 1 \/ k = 2 \/ k = 3 \/ k = 4 \/ k = 5 \/ k = 6 \/ k = 7 \/ k = 8 \/ k = 9 \/
              k = 10 \/ k = 11 \/ k = 12) by lia.
  repeat (destruct C as [->|C]; [reflexivity|]). subst k. reflexivity.
Qed.

(* a toy keyed function with 2-byte output standing for hmac *)
Definition toy_hmac (h : unit) (key msg : bytes) : bytes :=
  be 2 ((from_be key * 31 + from_be msg * 7 + blen msg + 12345) mod 65536)%N.

Example C18_nonvacuous :
  (* the group hypotheses are satisfiable (for every prime n: zn_group_laws) *)
  group_laws Z (zn_padd 13) (zn_smul 13) (zn_x 13) 1 13 0 /\
  (* a concrete signature over Z_13: key d = 5, hash 9, nonce 4 *)
  sign Z (zn_smul 13) (zn_x 13) 1 13 5 9 4 = SOk (4, 4) /\
  verifies Z (zn_padd 13) (zn_smul 13) (zn_x 13) 1 13 (zn_smul 13 5 1) 9 4 4 = Ok true /\
  verifies Z (zn_padd 13) (zn_smul 13) (zn_x 13) 1 13 (zn_smul 13 5 1) 9 4 9 = Ok true /\
  verifies Z (zn_padd 13) (zn_smul 13) (zn_x 13) 1 13 (zn_smul 13 5 1) 10 4 4 = Ok false /\
  (* end to end through DER *)
  (let sig := [x30; x06; x02; x01; x04; x02; x01; x04] in
   sign_digest Z (zn_smul 13) (zn_x 13) 1 13 sigencode_der 5 [x90] 4 true = SOk sig /\
   verify_digest Z (zn_padd 13) (zn_smul 13) (zn_x 13) 1 13 sigdecode_der (zn_smul 13 5 1) sig [x90] true = SOk true) /\
  (* the hmac hypotheses are satisfiable and generate_k returns a value in range *)
  (forall key m, Z.of_N (blen (toy_hmac tt key m)) = 2) /\
  (exists k, generate_k unit toy_hmac (fun _ => 2) 50 13 5 tt [x09; x2a] 0 [] = Ok k /\ 1 <= k <= 12).
Proof.
  split; [exact (zn_group_laws 13 prime_13)|].
  split; [vm_compute; reflexivity|]. split; [vm_compute; reflexivity|].
  split; [vm_compute; reflexivity|]. split; [vm_compute; reflexivity|].
  split; [split; vm_compute; reflexivity|].
  split; [intros key m; unfold toy_hmac; rewrite be_blen; reflexivity|].
  exists 8. split; [vm_compute; reflexivity | split; discriminate].
Qed.
Print Assumptions C18_nonvacuous.
