(* C06 - Encrypted components are stored only as ciphertext and decrypt to the
   original.

   Models (all tied to /repo by correspondence runs): Model/Bf3.v (BF3 writer and
   reader, C01), Model/Cbc.v (the registered AES128 adapter = zero-padded CBC over a
   block function, C08/C16), Model/ConfTlv.v (set_config, C10), Model/AesContainer.v
   (AES auth-block container, C08), Model/Segments.v (this property: provenance
   segments, BEC2 framing with AES auth blocks, output trace of write_file).
   crypto.pad is generated from the source (Gen/Consts.v: pad_length).

   The cipher is the adapter over ANY block function E/D with D k (E k b) = b on
   16-byte blocks (C16: the bundled AES is one) in C06_stored / C06_recover; it is an
   arbitrary triple of functions (oracles) in C06_segments and C06_fail_closed. *)
From Coq Require Import List Bool NArith ZArith Lia.
From Coq Require Import Init.Byte.
From Bec2 Require Import Base.Result Base.Bytes Base.Reader Gen.Consts Model.Cbc
  Model.ConfTlv Model.AesContainer Model.Bf3 Model.Segments
  Proofs.CbcProofs Proofs.Bf3Proofs Proofs.Bf3TextProofs Proofs.AesContainerProofs Proofs.EncProofs.
Import ListNotations.
Open Scope N_scope.

(* crypto.pad (translated from the source) is zero padding to a multiple of 16 *)
Theorem C06_pad_is_zero_pad : forall d,
  pad d = zero_pad d /\ blen (pad d) mod 16 = 0 /\ blen d <= blen (pad d) /\
  (forall n, n <= blen d -> takeN n (pad d) = takeN n d).
Proof.
  intro d. split; [apply pad_zero_pad|]. rewrite pad_zero_pad.
  destruct (zero_pad_len d) as [H1 H2]. split; [exact H1|]. split; [exact H2|].
  intros n Hn. rewrite <- pad_zero_pad. apply takeN_pad, Hn.
Qed.
Print Assumptions C06_pad_is_zero_pad.

Section C06.
  Variable E D : bytes -> bytes -> bytes.
  Hypothesis E_len : forall k b, length b = 16%nat -> length (E k b) = 16%nat.
  Hypothesis DE : forall k b, length b = 16%nat -> D k (E k b) = b.

  Let enc := adapter_encrypt E.
  Let dec := adapter_decrypt D.
  Let mac := adapter_mac E.

  Let a_mac_len : forall k iv d m, d <> [] -> mac k iv d = Ok m -> blen m = 16
    := adapter_mac_len E D E_len DE.
  Let a_enc_len : forall k d c, blen d mod 16 = 0 -> enc k None d = Ok c -> blen c = blen d
    := fun k d c Hm He => proj2 (adapter_inverse E D E_len DE k None d c Hm He).
  Let a_dec_enc : forall k d c, blen d mod 16 = 0 -> enc k None d = Ok c -> dec k None c = Ok d
    := fun k d c Hm He => proj1 (adapter_inverse E D E_len DE k None d c Hm He).

  (* STORED.  For every list of well-formed components, every offset (header length:
     5 for BF3, 5 + auth blocks for BEC2), every key, MAC checking on or off: the
     reader's directory parser run on the written binary yields, for component i,
     an entry whose address/length fields delimit exactly
        CBC-encrypt_E(key, IV = 0^16, blob zero-padded to 16)
     when the component is flagged for session-key encryption; the declared length
     and the tags are stored unchanged. *)
  Theorem C06_stored : forall cs off k b check i c,
    Forall wf_comp cs -> to_binary enc mac cs off k = Ok b ->
    nth_error cs i = Some c -> c_enc c = true ->
    exists es r' e,
      dir_from_binary mac (mkR b off) check k = Ok (es, r') /\
      nth_error es i = Some e /\
      e_alen e = c_alen c /\ e_desc e = c_desc c /\ off <= e_adr e /\
      e_total e = blen (zero_pad (Bf3.c_blob c)) /\
      takeN (e_total e) (dropN (e_adr e - off) b) =
        cbc_enc E (length (zero_pad (Bf3.c_blob c))) k (zeros 16) (zero_pad (Bf3.c_blob c)).
  Proof.
    intros cs off k b check i c Hwf Hb Hi Hc.
    destruct (stored_payload enc mac a_mac_len a_enc_len cs off k b check i c Hwf Hb Hi)
      as [es [r' [e [raw [H1 [H2 [H3 [H4 [H5 [H6 [H7 H8]]]]]]]]]]].
    exists es, r', e. repeat split; try assumption.
    - rewrite H4. unfold raw_data in H3. rewrite Hc in H3.
      destruct (pad_aligned (Bf3.c_blob c)) as [Hm _].
      rewrite (a_enc_len _ _ _ Hm H3), pad_zero_pad. reflexivity.
    - rewrite H8. unfold raw_data in H3. rewrite Hc in H3.
      apply (adapter_encrypt_pad E k _ raw); [|exact H3].
      rewrite Forall_forall in Hwf. apply nth_error_In in Hi. destruct (Hwf c Hi) as [_ [Hb' _]]. exact Hb'.
  Qed.

  (* plain components are stored as they are (for contrast) *)
  Theorem C06_stored_plain : forall cs off k b check i c,
    Forall wf_comp cs -> to_binary enc mac cs off k = Ok b ->
    nth_error cs i = Some c -> c_enc c = false ->
    exists es r' e,
      dir_from_binary mac (mkR b off) check k = Ok (es, r') /\ nth_error es i = Some e /\
      off <= e_adr e /\ takeN (e_total e) (dropN (e_adr e - off) b) = Bf3.c_blob c.
  Proof.
    intros cs off k b check i c Hwf Hb Hi Hc.
    destruct (stored_payload enc mac a_mac_len a_enc_len cs off k b check i c Hwf Hb Hi)
      as [es [r' [e [raw [H1 [H2 [H3 [H4 [H5 [H6 [H7 H8]]]]]]]]]]].
    exists es, r', e. repeat split; try assumption.
    unfold raw_data in H3. rewrite Hc in H3. injection H3 as <-. exact H8.
  Qed.

  (* the text file written by write_file carries exactly that binary behind the
     signature (hex decoding of the writer's text, C01) *)
  Theorem C06_stored_text : forall f k t,
    wf_comments (f_comments f) -> write_file enc mac f k = Ok t ->
    exists b, to_binary enc mac (f_comps f) (blen BF3_FILE_SIG) k = Ok b /\
              parse_bf3_file t = Ok (BF3_FILE_SIG ++ b, f_comments f).
  Proof.
    intros f k t Hc H. unfold write_file in H.
    destruct (to_binary enc mac (f_comps f) (blen BF3_FILE_SIG) k) as [b|]; cbn [bind] in H; [|discriminate].
    inversion H; subst t. exists b. split; [reflexivity|]. apply parse_bf3_write, Hc.
  Qed.

  (* RECOVER.  Reading the written file with the same key returns, component by
     component: the same tags, declared length and flag; a blob that agrees with the
     original on the first actual_len bytes (for EVERY content: nothing is stripped,
     the encrypted blob comes back zero-padded); plain components unchanged. *)
  Theorem C06_recover : forall f k t check,
    wf_file f -> write_file enc mac f k = Ok t ->
    exists g, read_file dec mac t check k = Ok g /\
      f_comments g = f_comments f /\ Forall2 recovered (f_comps f) (f_comps g).
  Proof.
    intros f k t check Hwf Hw.
    exists (file_view f). split.
    - eapply (read_write_file enc dec mac a_mac_len a_enc_len a_dec_enc); eassumption.
    - split; [reflexivity|]. apply map_view_recovered. exact (proj2 Hwf).
  Qed.

  (* the same at the binary level for every offset, i.e. behind a BEC2 header *)
  Theorem C06_recover_binary : forall cs off k b check,
    Forall wf_comp cs -> to_binary enc mac cs off k = Ok b ->
    exists cs', from_binary dec mac (mkR b off) check k = Ok cs' /\ Forall2 recovered cs cs'.
  Proof.
    intros cs off k b check Hwf Hb. exists (map view cs). split.
    - eapply (from_binary_to_binary enc dec mac a_mac_len a_enc_len a_dec_enc); eassumption.
    - apply map_view_recovered, Hwf.
  Qed.

  (* what "recovered" says, spelled out for an encrypted component *)
  Theorem C06_recover_meaning : forall c c', recovered c c' -> c_enc c = true ->
    c_enc c' = true /\ c_alen c' = c_alen c /\ c_desc c' = c_desc c /\
    Bf3.c_blob c' = zero_pad (Bf3.c_blob c) /\
    takeN (c_alen c) (Bf3.c_blob c') = takeN (c_alen c) (Bf3.c_blob c).
  Proof.
    intros c c' [H1 [H2 [H3 [H4 [_ H6]]]]] Hc. rewrite Hc in H3.
    repeat split; try assumption. exact (H6 Hc).
  Qed.

  (* a configuration written by set_config is stored as ciphertext and read back *)
  Theorem C06_config_stored : forall cs d extra r off k b check,
    Forall wf_comp cs -> bf3_set_config cs d extra = Ok r ->
    to_binary enc mac r off k = Ok b ->
    exists blob es r' e,
      nth_error r (length r - 1) = Some (Bf3.mkComp cfg_desc blob (blen blob) true) /\
      dir_from_binary mac (mkR b off) check k = Ok (es, r') /\
      nth_error es (length r - 1) = Some e /\
      e_alen e = blen blob /\ off <= e_adr e /\ e_total e = blen (zero_pad blob) /\
      takeN (e_total e) (dropN (e_adr e - off) b) =
        cbc_enc E (length (zero_pad blob)) k (zeros 16) (zero_pad blob).
  Proof.
    intros cs d extra r off k b check Hwf Hs Hb.
    destruct (bf3_set_config_spec cs d extra r Hs) as [blob [front [-> [Hne [_ Hwf']]]]].
    assert (Hn : nth_error (front ++ [Bf3.mkComp cfg_desc blob (blen blob) true])
                   (length (front ++ [Bf3.mkComp cfg_desc blob (blen blob) true]) - 1) =
                 Some (Bf3.mkComp cfg_desc blob (blen blob) true)).
    { rewrite app_length. cbn [length]. replace (length front + 1 - 1)%nat with (length front) by lia.
      rewrite nth_error_app2 by lia. rewrite Nat.sub_diag. reflexivity. }
    destruct (C06_stored _ off k b check _ _ (Hwf' Hwf) Hb Hn eq_refl)
      as [es [r' [e [H1 [H2 [H3 [H4 [H5 [H6 H7]]]]]]]]].
    exists blob, es, r', e. cbn [Bf3.c_blob c_alen] in *. repeat split; assumption.
  Qed.
End C06.
Print Assumptions C06_stored.
Print Assumptions C06_stored_plain.
Print Assumptions C06_stored_text.
Print Assumptions C06_recover.
Print Assumptions C06_recover_binary.
Print Assumptions C06_recover_meaning.
Print Assumptions C06_config_stored.

(* CONFIG IS ENCRYPTED.  Every component set_config creates (any dictionary, any
   extra blocks, whenever set_config succeeds) is flagged encrypt_by_session_key and
   carries TYPE=03 ENC=02 FMT=03 REBOOT=01, declared length = len(blob), a non-empty
   blob: a well-formed component with c_enc = true, so C06_stored / C06_recover apply
   to it (C06_config_stored).  Model.ConfTlv.set_config is the model C10 ties to the
   source; C10_blob gives the blob's content. *)
Theorem C06_config_is_encrypted : forall comps d extra r,
  set_config comps d extra = Ok r ->
  exists blob,
    r = remove_first_config comps ++ [ConfTlv.mkComp cfg_desc blob (blen blob) true] /\
    let c := of_cfg (ConfTlv.mkComp cfg_desc blob (blen blob) true) in
    c_enc c = true /\
    dict_get N.eqb (c_desc c) BF3TAG_ENC = Some [n2b BF3ENC_SESSIONKEY] /\
    dict_get N.eqb (c_desc c) BF3TAG_TYPE = Some [n2b BF3TYPE_CONFIGURATION] /\
    dict_get N.eqb (c_desc c) BF3TAG_FMT = Some [n2b BF3FMT_TLVCFG] /\
    dict_get N.eqb (c_desc c) BF3TAG_REBOOT = Some [x01] /\
    wf_comp c.
Proof.
  intros comps d extra r H. destruct (set_config_shape comps d extra r H) as [blob [-> Hne]].
  exists blob. split; [reflexivity|]. cbv zeta. unfold of_cfg. cbn [c_descr ConfTlv.c_blob c_actual_len c_sess].
  repeat split; try reflexivity; apply (cfg_comp_wf blob Hne).
Qed.
Print Assumptions C06_config_is_encrypted.

Theorem C06_config_is_encrypted_file : forall cs d extra r,
  bf3_set_config cs d extra = Ok r ->
  exists blob front,
    r = front ++ [Bf3.mkComp cfg_desc blob (blen blob) true] /\ blob <> [] /\
    (forall c, In c front -> In c cs) /\ (Forall wf_comp cs -> Forall wf_comp r).
Proof. exact bf3_set_config_spec. Qed.
Print Assumptions C06_config_is_encrypted_file.

(* SEGMENTS (provenance instead of a probabilistic substring claim).
   For ARBITRARY functions enc, mac (oracles):
   (1) the writer's output is the concatenation of the segment list computed by
       seg_to_binary, whose definition tags each piece Public / CipherOut / MacOut;
   (2) every CipherOut segment is the value  enc k None (pad blob)  of a component
       flagged for encryption, every MacOut segment is a value  mac k iv (flatten src)
       where src consists of Public segments, CipherOut segments of that kind and
       mac outputs only. *)
Theorem C06_segments : forall enc mac cs off k b,
  to_binary enc mac cs off k = Ok b ->
  exists segs, seg_to_binary enc mac cs off k = Ok segs /\ flatten segs = b /\
               Forall (seg_ok enc mac cs k) segs.
Proof.
  intros enc mac cs off k b H. rewrite to_binary_seg in H.
  destruct (seg_to_binary enc mac cs off k) as [segs|] eqn:E; cbn [rmap] in H; [|discriminate].
  inversion H. exists segs. split; [reflexivity|]. split; [reflexivity|].
  exact (seg_to_binary_ok enc mac cs off k segs E).
Qed.
Print Assumptions C06_segments.

(* (3) NON-INTERFERENCE of everything else: take two runs of the writer with
   arbitrary (even different) ciphers whose outputs have the lengths of AES-CBC /
   CBC-MAC outputs, arbitrary session keys, and component lists that agree on what is
   public (tags, declared lengths, flags, plain blobs, PADDED LENGTH of the encrypted
   blobs) but have arbitrary encrypted blobs.  Then the two segment lists have the
   same shape: the same Public segments byte for byte, and CipherOut / MacOut
   segments of the same lengths at the same positions.  So no Public byte is
   computed from an encrypted blob or from the session key, and these reach the output
   only through enc and mac. *)
Theorem C06_segments_public : forall enc1 mac1 enc2 mac2,
  (forall k iv d m, d <> [] -> mac1 k iv d = Ok m -> blen m = 16) ->
  (forall k iv d m, d <> [] -> mac2 k iv d = Ok m -> blen m = 16) ->
  (forall k d c, blen d mod 16 = 0 -> enc1 k None d = Ok c -> blen c = blen d) ->
  (forall k d c, blen d mod 16 = 0 -> enc2 k None d = Ok c -> blen c = blen d) ->
  forall cs1 cs2 off k1 k2 s1 s2,
  Forall2 pub_eq cs1 cs2 -> Forall nonempty_blob cs1 -> Forall nonempty_blob cs2 ->
  seg_to_binary enc1 mac1 cs1 off k1 = Ok s1 -> seg_to_binary enc2 mac2 cs2 off k2 = Ok s2 ->
  shape s1 = shape s2.
Proof. exact seg_to_binary_shape. Qed.
Print Assumptions C06_segments_public.

(* the text file: comments (public) + hex of signature + segments *)
Theorem C06_segments_text : forall enc mac f k t,
  write_file enc mac f k = Ok t ->
  exists segs, seg_to_binary enc mac (f_comps f) (blen BF3_FILE_SIG) k = Ok segs /\
    t = write_bf3_format (f_comments f) (flatten (Public BF3_FILE_SIG :: segs)) /\
    Forall (seg_ok enc mac (f_comps f) k) segs.
Proof.
  intros enc mac f k t H. unfold write_file in H.
  destruct (to_binary enc mac (f_comps f) (blen BF3_FILE_SIG) k) as [b|] eqn:Eb; cbn [bind] in H; [|discriminate].
  destruct (C06_segments _ _ _ _ _ _ Eb) as [segs [H1 [H2 H3]]].
  exists segs. split; [exact H1|]. split; [|exact H3].
  inversion H. cbn [flatten flat_map seg_bytes]. fold (flatten segs). rewrite H2. reflexivity.
Qed.
Print Assumptions C06_segments_text.

(* BEC2 framing with the AES auth blocks (customer-key block packed by a
   SoftwareCustKeyEncryptor, update block with the configuration security code,
   unknown blocks): the header adds Public segments (signature, tags, lengths,
   terminator, unknown blocks) and WrapOut segments; each WrapOut segment is the value
   enc wrapkey None frame  of the AES container (C08) - the only place where session
   key, customer key and (through sha256, as the key) the security code are used. *)
Theorem C06_segments_bec2 : forall enc mac sha256 l cs k b,
  bec2_to_binary enc mac sha256 l cs k = Ok b ->
  exists segs, seg_bec2_to_binary enc mac sha256 l cs k = Ok segs /\ flatten segs = b /\
    Forall (bseg_ok enc mac sha256 l cs k) segs /\
    (forall a w, In a l -> ab_wrapped a = true -> ab_pack enc sha256 a k = Ok w ->
       exists wk pt f, frame pt = Ok f /\ enc wk None f = Ok w).
Proof.
  intros enc mac sha256 l cs k b H. rewrite bec2_to_binary_seg in H.
  destruct (seg_bec2_to_binary enc mac sha256 l cs k) as [segs|] eqn:E; cbn [rmap] in H; [|discriminate].
  inversion H. exists segs. split; [reflexivity|]. split; [reflexivity|].
  split; [exact (seg_bec2_ok enc mac sha256 l cs k segs E)|].
  intros a w _ Hw Hp. exact (ab_pack_is_enc enc sha256 a k w Hw Hp).
Qed.
Print Assumptions C06_segments_bec2.

(* non-interference for BEC2: additionally the wrapping keys, the customer keys (same
   position and length), the security codes, sha256 itself and the session keys
   (same length) are arbitrary in the two runs *)
Theorem C06_segments_bec2_public : forall enc1 mac1 enc2 mac2 sha1 sha2,
  (forall k iv d m, d <> [] -> mac1 k iv d = Ok m -> blen m = 16) ->
  (forall k iv d m, d <> [] -> mac2 k iv d = Ok m -> blen m = 16) ->
  (forall k d c, blen d mod 16 = 0 -> enc1 k None d = Ok c -> blen c = blen d) ->
  (forall k d c, blen d mod 16 = 0 -> enc2 k None d = Ok c -> blen c = blen d) ->
  forall l1 l2 cs1 cs2 k1 k2 s1 s2,
  Forall2 ab_pub_eq l1 l2 -> blen k1 = blen k2 ->
  Forall2 pub_eq cs1 cs2 -> Forall nonempty_blob cs1 -> Forall nonempty_blob cs2 ->
  seg_bec2_to_binary enc1 mac1 sha1 l1 cs1 k1 = Ok s1 ->
  seg_bec2_to_binary enc2 mac2 sha2 l2 cs2 k2 = Ok s2 ->
  shape s1 = shape s2.
Proof. exact seg_bec2_shape. Qed.
Print Assumptions C06_segments_bec2_public.

(* the registered adapter satisfies the length hypotheses of the two theorems above *)
Theorem C06_segments_adapter : forall E D : bytes -> bytes -> bytes,
  (forall k b, length b = 16%nat -> length (E k b) = 16%nat) ->
  (forall k b, length b = 16%nat -> D k (E k b) = b) ->
  (forall k iv d m, d <> [] -> adapter_mac E k iv d = Ok m -> blen m = 16) /\
  (forall k d c, blen d mod 16 = 0 -> adapter_encrypt E k None d = Ok c -> blen c = blen d).
Proof.
  intros E D HL HI. split; [exact (adapter_mac_len E D HL HI)|].
  intros k d c Hm He. exact (proj2 (adapter_inverse E D HL HI k None d c Hm He)).
Qed.
Print Assumptions C06_segments_adapter.

(* FAIL CLOSED, for arbitrary enc/mac.  to_binary returns Ok only if, for every
   component, the encryption call (if flagged) and the payload MAC call returned Ok,
   both in the measuring pass (default key) and in the real pass; hence if any of
   these calls fails, to_binary and write_file return Err: the model produces no text. *)
Theorem C06_fail_closed : forall enc mac f k t,
  write_file enc mac f k = Ok t ->
  Forall (fun c => calls_ok enc mac DEFAULT_SESSION_KEY c /\ calls_ok enc mac k c) (f_comps f).
Proof.
  intros enc mac f k t H. unfold write_file in H.
  destruct (to_binary enc mac (f_comps f) (blen BF3_FILE_SIG) k) as [b|] eqn:E; cbn [bind] in H; [|discriminate].
  exact (to_binary_ok_calls enc mac _ _ _ _ E).
Qed.
Print Assumptions C06_fail_closed.

Theorem C06_fail_closed_any : forall enc mac f k c,
  In c (f_comps f) ->
  ~ (calls_ok enc mac DEFAULT_SESSION_KEY c /\ calls_ok enc mac k c) ->
  exists e, write_file enc mac f k = Err e.
Proof.
  intros enc mac f k c Hin Hn.
  destruct (to_binary_fail_any enc mac (f_comps f) (blen BF3_FILE_SIG) k c Hin Hn) as [e He].
  exists e. unfold write_file. rewrite He. reflexivity.
Qed.
Print Assumptions C06_fail_closed_any.

(* an encrypted component whose encryption fails (possibly only under the session
   key, after the measuring pass went through): no output *)
Theorem C06_fail_closed_encrypt : forall enc mac f k c e,
  In c (f_comps f) -> c_enc c = true -> enc k None (pad (Bf3.c_blob c)) = Err e ->
  exists e', write_file enc mac f k = Err e'.
Proof.
  intros enc mac f k c e Hin Hc He.
  destruct (to_binary_enc_fails_late enc mac (f_comps f) (blen BF3_FILE_SIG) k c Hin Hc (ex_intro _ e He)) as [e' H].
  exists e'. unfold write_file. rewrite H. reflexivity.
Qed.
Print Assumptions C06_fail_closed_encrypt.

(* exact errors: cipher not registered (the base class raises NotImplementedError in
   every method); encrypt raising, first component encrypted; mac raising *)
Theorem C06_fail_closed_exact : forall enc mac cm c cs k e,
  ((forall k iv d, enc k iv d = Err e) /\ (forall k iv d, mac k iv d = Err e)) \/
  (c_enc c = true /\ (forall k iv d, enc k iv d = Err e)) \/
  ((exists raw, raw_data enc c DEFAULT_SESSION_KEY = Ok raw) /\ (forall k iv d, mac k iv d = Err e)) ->
  write_file enc mac (mkBf3 cm (c :: cs)) k = Err e.
Proof.
  intros enc mac cm c cs k e H. unfold write_file. cbn [f_comps].
  destruct H as [[He Hm]|[[Hc He]|[[raw Hr] Hm]]].
  - rewrite (to_binary_unregistered enc mac e c cs _ k He Hm). reflexivity.
  - rewrite (to_binary_enc_fails enc mac e c cs _ k Hc He). reflexivity.
  - rewrite (to_binary_mac_fails enc mac e c cs _ k raw Hr Hm). reflexivity.
Qed.
Print Assumptions C06_fail_closed_exact.

(* OUTPUT TRACE.  write_file_io models the evaluation order of
      self.write_bf3_format(bf3file, self.comments, BF3_FILE_SIG + self.to_binary(...))
   (arguments first; the callee opens the path and performs the write() calls).
   When the binary cannot be computed the trace is EMPTY: no open, no write; otherwise
   the writes concatenate to the text of write_file.  Same for Bec2File.write_file,
   where a failing auth-block cipher call also aborts before any output. *)
Theorem C06_fail_closed_trace : forall enc mac is_path f k,
  match write_file enc mac f k with
  | Err e => write_file_io enc mac is_path f k = ([], Err e)
  | Ok t => exists evs, write_file_io enc mac is_path f k = (evs, Ok tt) /\ written evs = t
  end.
Proof. intros. apply write_file_io_spec. Qed.
Print Assumptions C06_fail_closed_trace.

Theorem C06_fail_closed_trace_bec2 : forall enc mac sha256 is_path l f k,
  match bec2_write_file enc mac sha256 l f k with
  | Err e => bec2_write_file_io enc mac sha256 is_path l f k = ([], Err e)
  | Ok t => exists evs, bec2_write_file_io enc mac sha256 is_path l f k = (evs, Ok tt) /\ written evs = t
  end.
Proof. intros. apply bec2_write_file_io_spec. Qed.
Print Assumptions C06_fail_closed_trace_bec2.

Theorem C06_fail_closed_bec2 : forall enc mac sha256 l cs k,
  (forall e, pack_auth_blocks enc sha256 l k = Err e -> bec2_to_binary enc mac sha256 l cs k = Err e) /\
  (forall h e, pack_auth_blocks enc sha256 l k = Ok h ->
     to_binary enc mac cs (blen (BEC2_FILE_SIG ++ h)) k = Err e ->
     bec2_to_binary enc mac sha256 l cs k = Err e).
Proof.
  intros. split; [intros e; apply bec2_to_binary_fail_header|intros h e; apply bec2_to_binary_fail_body].
Qed.
Print Assumptions C06_fail_closed_bec2.

(* non-vacuity: a plain component and a configuration made by set_config
   ({(0x0101, 2): "xyz"}: the blob ends in 00), toy cipher, key 01 02 .. 10:
   the file is well-formed, is written, the stored payload of the configuration is the
   CBC ciphertext located through the directory, reading returns the original up to
   the declared length, the segments are as claimed; an unregistered cipher gives
   Err ENotImpl and an empty output trace. *)
Definition ex_key : bytes := H 16 0x0102030405060708090a0b0c0d0e0f10.
Definition ex_plain : comp := Bf3.mkComp [(0xC3, [x02])] [x09; x00; x00] 3 false.
Definition ex_dict : cdict := [((0x0101, Some 2), Some [x78; x79; x7a])].
Definition ex_comps : list comp :=
  match bf3_set_config [ex_plain] ex_dict [] with Ok r => r | Err _ => [] end.
Definition ex_cfg_blob : bytes := [x08; x01; x01; x01; x02; x03; x78; x79; x7a; x00].
Definition unreg : bytes -> option bytes -> bytes -> result bytes := fun _ _ _ => Err ENotImpl.

Example C06_nonvacuous :
  ex_comps = [ex_plain; Bf3.mkComp cfg_desc ex_cfg_blob 10 true] /\
  (exists b es r',
     to_binary (adapter_encrypt toyE) (adapter_mac toyE) ex_comps 5 ex_key = Ok b /\
     dir_from_binary (adapter_mac toyE) (mkR b 5) true ex_key = Ok (es, r') /\
     map (fun e => takeN (e_total e) (dropN (e_adr e - 5) b)) es =
       [Bf3.c_blob ex_plain; cbc_enc toyE 16 ex_key (zeros 16) (zero_pad ex_cfg_blob)] /\
     from_binary (adapter_decrypt toyD) (adapter_mac toyE) (mkR b 5) true ex_key =
       Ok [ex_plain; Bf3.mkComp cfg_desc (zero_pad ex_cfg_blob) 10 true] /\
     exists segs, seg_to_binary (adapter_encrypt toyE) (adapter_mac toyE) ex_comps 5 ex_key = Ok segs /\
       shape segs = [SPublic (be 4 108); SPublic [n2b 48]; SPublic (be 4 117 ++ be 4 3 ++ be 4 3); SMac 16;
                     SPublic [x03; xc3; x01; x02]; SMac 16;
                     SPublic [n2b 57]; SPublic (be 4 120 ++ be 4 16 ++ be 4 10); SMac 16;
                     SPublic [x0c; xc3; x01; x03; xc2; x01; x02; xc1; x01; x03; xc5; x01; x01]; SMac 16;
                     SPublic [x00]; SPublic [x09; x00; x00]; SCipher 16]) /\
  write_file unreg unreg (mkBf3 [] ex_comps) ex_key = Err ENotImpl /\
  write_file_io unreg unreg true (mkBf3 [] ex_comps) ex_key = ([], Err ENotImpl) /\
  bec2_write_file_io unreg unreg (fun _ => []) false
    [ABCustKey ex_key (Some (zeros 10, 0)); ABUpdate [x01] 1] (mkBf3 [] ex_comps) ex_key = ([], Err ENotImpl).
Proof.
  split; [vm_compute; reflexivity|]. split.
  - eexists. eexists. eexists. split; [vm_compute; reflexivity|].
    split; [vm_compute; reflexivity|]. split; [vm_compute; reflexivity|]. split; [vm_compute; reflexivity|].
    eexists. split; vm_compute; reflexivity.
  - repeat split; vm_compute; reflexivity.
Qed.
Print Assumptions C06_nonvacuous.

Example C06_wf_example : Forall wf_comp ex_comps.
Proof.
  assert (H : Forall wf_comp [ex_plain]).
  { constructor; [|constructor]. unfold wf_comp, ex_plain. cbn [c_desc Bf3.c_blob c_alen c_enc map fst].
    split; [constructor; [intros []|constructor]|]. split; [discriminate|].
    split; [split; intro Hx; discriminate Hx|]. split; [discriminate|intro Hx; discriminate Hx]. }
  unfold ex_comps. destruct (bf3_set_config [ex_plain] ex_dict []) as [r|] eqn:E; [|constructor].
  destruct (bf3_set_config_spec _ _ _ _ E) as [_ [_ [_ [_ [_ Hwf]]]]]. exact (Hwf H).
Qed.
Print Assumptions C06_wf_example.
