(* C05 - The reader accepts a binary exactly when it is well-formed and authentic.
   "Well-formed and authentic" is the declarative layout is_bf3_body of Model/Layout.v
   (written from the property text: every length field matches the bytes present,
   absolute contiguous addresses, no repeated description tag, declared <= stored
   length, both MACs of every entry under the session key with the 1-based entry
   index as IV, sentinel, nothing after the last payload).  Reader: Model/Bf3.v
   (dir_from_binary / from_binary / read_file), tied to /repo by the correspondences
   of C01 and of tools/props/C05.py.

   One clause is NOT in the property's list and is stated explicitly: a component
   whose description carries ENC (C2) = 02 is handed to the cipher's decrypt, so the
   reader additionally needs that call to succeed ([decryptable]); for the
   registered adapter this means: the stored payload of such a component is a whole
   number of 16-byte blocks ([aligned_fields]).

   Declared length 0 (excluded by the property's quantifier): such a binary IS
   accepted; the returned component then carries len(blob) instead of 0
   ([declared], Bf3Component.__init__: actual_len or len(blob)). *)
From Coq Require Import List NArith ZArith Bool.
From Coq Require Import Init.Byte.
From Bec2 Require Import Base.Result Base.Bytes Base.Reader Gen.Consts Model.Cbc Model.Bf3 Model.Layout
  Proofs.CbcProofs Proofs.Bf3Proofs Proofs.LayoutProofs Proofs.LayoutWriterProofs
  Proofs.LayoutReaderProofs Proofs.LayoutAdapterProofs Proofs.LayoutCanonicalProofs.
Import ListNotations.
Open Scope N_scope.

(* ---- every cipher plug-in (dec, mac are arbitrary functions) ---------------------- *)

(* accept <-> well-formed and authentic (and decryptable where decryption is requested).
   Both directions are proved by induction over the reader; every check of the reader
   is used in "->": without the address test, the length-order test, the duplicate-tag
   test, one of the end-of-data tests, one of the two MAC tests or the IV index, the
   corresponding clause of is_bf3_body could not be established. *)
Theorem C05_accept_iff : forall dec mac b off k,
  (exists cs, from_binary dec mac (mkR b off) true k = Ok cs) <->
  (exists fs, is_bf3_body mac off k fs b /\ decryptable dec k fs).
Proof. intros. apply from_binary_accept_iff. Qed.
Print Assumptions C05_accept_iff.

(* check_cmac = False: the same with the two MAC clauses dropped, nothing else *)
Theorem C05_accept_iff_nomac : forall dec mac b off k,
  (exists cs, from_binary dec mac (mkR b off) false k = Ok cs) <->
  (exists fs, is_bf3_body_noauth mac off k fs b /\ decryptable dec k fs).
Proof. intros. apply from_binary_accept_iff. Qed.
Print Assumptions C05_accept_iff_nomac.

(* the returned content is what the fields say: for THE field list of the binary (it
   is unique, C03_fields_unique) the components are, in directory order: description
   = tag list in stored order; blob = payload bytes, or their decryption when
   ENC = 02 (flag encrypt_by_session_key set exactly then); declared length = the
   actual field (len(blob) if that field is 0) *)
Theorem C05_content : forall dec mac check b off k cs,
  from_binary dec mac (mkR b off) check k = Ok cs ->
  forall fs, is_bf3_body_gen mac check off k fs b -> Forall2 (field_comp dec k) fs cs.
Proof. exact content_is_fields. Qed.
Print Assumptions C05_content.

(* in particular, under the property's quantifier (declared length >= 1) *)
Theorem C05_content_declared : forall dec mac check b off k cs fs,
  from_binary dec mac (mkR b off) check k = Ok cs -> is_bf3_body_gen mac check off k fs b ->
  Forall (fun f => 1 <= ef_actual (fr_entry f)) fs ->
  Forall2 (fun f c => c_desc c = ef_tags (fr_entry f) /\ c_alen c = ef_actual (fr_entry f) /\
                      c_enc c = enc_tagged (ef_tags (fr_entry f)) /\
                      (if c_enc c then dec k None (fr_payload f) = Ok (c_blob c)
                       else c_blob c = fr_payload f)) fs cs.
Proof. exact content_declared. Qed.
Print Assumptions C05_content_declared.

(* file level: read_file = decode the text, then read_bf3_binary (signature test, body at
   offset 5); the signature must be intact *)
Theorem C05_read_file_is : forall dec mac t check k,
  read_file dec mac t check k =
  (let* (bin, cm) := parse_bf3_file t in
   let* cs := read_bf3_binary dec mac bin check k in Ok (mkBf3 cm cs)).
Proof. exact read_file_is. Qed.
Print Assumptions C05_read_file_is.

Theorem C05_file_accept_iff : forall dec mac bin k,
  (exists cs, read_bf3_binary dec mac bin true k = Ok cs) <->
  (exists fs, is_bf3_file mac k fs bin /\ decryptable dec k fs).
Proof. exact file_accept_iff. Qed.
Print Assumptions C05_file_accept_iff.

(* ---- the registered adapter (zero-padded CBC over any block function) ------------- *)
(* here "decryptable" is a property of the bytes alone *)
Theorem C05_accept_iff_adapter : forall (E D : bytes -> bytes -> bytes) b off k,
  (exists cs, from_binary (adapter_decrypt D) (adapter_mac E) (mkR b off) true k = Ok cs) <->
  (exists fs, is_bf3_body (adapter_mac E) off k fs b /\ aligned_fields fs).
Proof. exact adapter_accept_iff. Qed.
Print Assumptions C05_accept_iff_adapter.

Theorem C05_accept_iff_nomac_adapter : forall (E D : bytes -> bytes -> bytes) b off k,
  key_ok k = true ->
  ((exists cs, from_binary (adapter_decrypt D) (adapter_mac E) (mkR b off) false k = Ok cs) <->
   (exists fs, is_bf3_body_noauth (adapter_mac E) off k fs b /\ aligned_fields fs)).
Proof. exact adapter_accept_noauth_iff. Qed.
Print Assumptions C05_accept_iff_nomac_adapter.

(* canonical form: an accepted binary (declared lengths >= 1) is exactly what the writer
   produces for the returned components - with the same header length and key.  Needs the
   block function to be a permutation in both directions (true of AES; D_len, ED are
   hypotheses like E_len, DE). *)
Section C05_canonical.
  Variable E D : bytes -> bytes -> bytes.
  Hypothesis E_len : forall k b, length b = 16%nat -> length (E k b) = 16%nat.
  Hypothesis D_len : forall k b, length b = 16%nat -> length (D k b) = 16%nat.
  Hypothesis DE : forall k b, length b = 16%nat -> D k (E k b) = b.
  Hypothesis ED : forall k b, length b = 16%nat -> E k (D k b) = b.

  Theorem C05_canonical : forall b off k cs,
    from_binary (adapter_decrypt D) (adapter_mac E) (mkR b off) true k = Ok cs ->
    (forall fs, is_bf3_body (adapter_mac E) off k fs b -> Forall (fun f => 1 <= ef_actual (fr_entry f)) fs) ->
    to_binary (adapter_encrypt E) (adapter_mac E) cs off k = Ok b.
  Proof. exact (adapter_canonical E D E_len D_len DE ED). Qed.
End C05_canonical.
Print Assumptions C05_canonical.

(* the proved checker of the layout is therefore an acceptance oracle for the reader *)
Theorem C05_checker_decides : forall dec mac b off k,
  (exists cs, from_binary dec mac (mkR b off) true k = Ok cs) <->
  (exists fs, check_layout mac off k b = Ok fs /\ decryptable dec k fs).
Proof.
  intros. rewrite C05_accept_iff. split; intros [fs [H1 H2]]; exists fs; (split; [|exact H2]);
    apply (check_layout_gen_iff mac true off k b fs); exact H1.
Qed.
Print Assumptions C05_checker_decides.

(* non-vacuity: both sides of the equivalence are inhabited by the writer's output for a
   2-component file (one encrypted) under the toy cipher, the same bytes read at another
   offset are rejected by reader and checker alike, and writing what was read gives the bytes back *)
Definition c05_ex : list comp :=
  [mkComp [(0xC3, [x02]); (0x00, [])] [x01; x00; x00] 2 false;
   mkComp [(0xC2, [x02])] [x09; x08; x07; x00] 4 true].
Example C05_nonvacuous :
  (let* b := to_binary (adapter_encrypt toyE) (adapter_mac toyE) c05_ex 5 (zeros 16) in
   Ok (is_ok (from_binary (adapter_decrypt toyD) (adapter_mac toyE) (mkR b 5) true (zeros 16)),
       is_ok (check_layout (adapter_mac toyE) 5 (zeros 16) b),
       is_ok (from_binary (adapter_decrypt toyD) (adapter_mac toyE) (mkR b 6) true (zeros 16)),
       is_ok (check_layout (adapter_mac toyE) 6 (zeros 16) b),
       res_eqb bytes_eqb
         (let* cs := from_binary (adapter_decrypt toyD) (adapter_mac toyE) (mkR b 5) true (zeros 16) in
          to_binary (adapter_encrypt toyE) (adapter_mac toyE) cs 5 (zeros 16)) (Ok b)))
  = Ok (true, true, false, false, true).
Proof. vm_compute. reflexivity. Qed.
Print Assumptions C05_nonvacuous.
