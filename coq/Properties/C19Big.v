(* C19, second part - statements that need the Pocklington certificates of the LARGE numbers
   (field primes above 256 bits and all group orders, Proofs/PrimeCertsBig*.v).

   Properties/C19.v carries the same statements for the field primes of at most 256 bits.  This file
   is built by every run of `bin/check C19` (tools/props/C19.py lists it in MODEL_TARGETS: if a
   curve constant changes in /repo, the generated value finds no certificate, this file stops
   compiling and the check reports a broken obligation), but it is deliberately not imported by
   Properties/C19.v: the thorough tier re-checks the cone of that file with coqchk, which has no
   bytecode VM and needs about 50 minutes for these certificates (vm_compute: 100 s).  Once the
   thorough tier's re-check skips Proofs/PrimeCertsBig*.v, `Require Import Properties.C19Big` can
   move into Properties/C19.v unchanged.  Every theorem below prints "Closed under the global
   context". *)
From Coq Require Import List Bool NArith ZArith Znumtheory.
From Coq Require Import Init.Byte.
From Bec2 Require Import Base.Result Base.Bytes Base.Modp Gen.KeyOids Model.Der Model.KeyCodec
  Model.NumTheory Proofs.KeyCodecProofs Proofs.NumTheoryProofs Proofs.Pocklington Proofs.CurvePrimes
  Proofs.CurvePrimesBig Proofs.KeyCodecSqrtProofs.
From Bec2 Require Gen.Curves.
Import ListNotations.
Open Scope N_scope.

(* all 17 field primes of the generated curve rows (the five NIST curves and secp256k1 among them) *)
Theorem C19_primes : forall r, In r wrows -> prime (Z.of_N (w_p r)).
Proof. exact wrows_p_prime. Qed.
Print Assumptions C19_primes.

(* all 17 group orders *)
Theorem C19_orders_prime : forall r, In r wrows -> prime (Z.of_N (w_n r)).
Proof. exact wrows_n_prime. Qed.
Print Assumptions C19_orders_prime.

(* the same numbers as generated for the curve arithmetic (Gen/Curves.v, C17) *)
Theorem C19_primes_ec : forall c, In c Gen.Curves.curves -> prime (Gen.Curves.c_p c).
Proof. exact curves_p_prime. Qed.
Print Assumptions C19_primes_ec.

Theorem C19_orders_prime_ec : forall c, In c Gen.Curves.curves -> prime (Gen.Curves.c_n c).
Proof. exact curves_n_prime. Qed.
Print Assumptions C19_orders_prime_ec.

(* compressed points through the model's square root on every shipped curve with p = 3 (mod 4)
   (16 of 17): the only hypothesis left of the oracle is that jacobi does not answer -1 on
   alpha = x^3 + a x + b, a quadratic residue because the point is on the curve *)
Theorem C19_point_roundtrip_compressed_3mod4_all :
  forall order_ok ed_vk r x y s validate ve, In r wrows -> w_p r mod 4 = 3 ->
  point_valid order_ok (curve_of_row r) x y -> enc_allowed Compressed ve = true ->
  jacobi (alpha_of (curve_of_row r) x) (Z.of_N (w_p r)) <> Ok (-1)%Z ->
  vk_to_string (curve_of_row r) x y Compressed = Ok s ->
  vk_from_string sqrt_mod_model order_ok ed_vk (CW (curve_of_row r)) s validate ve = Ok (VkW (curve_of_row r) x y).
Proof.
  intros ok edv r x y s validate ve Hin H4 PV Hve Hj Hs.
  apply (vk_string_roundtrip_compressed_3mod4 ok edv (curve_of_row r) x y s validate ve); try assumption.
  - apply wrows_p_prime, Hin.
  - apply (curve17_sizes r Hin).
Qed.
Print Assumptions C19_point_roundtrip_compressed_3mod4_all.

Example C19_big_nonvacuous : length wrows = 17%nat /\ length Gen.Curves.curves = 17%nat /\
  length (filter (fun r => w_p r mod 4 =? 3) wrows) = 16%nat.
Proof. repeat split; vm_compute; reflexivity. Qed.
Print Assumptions C19_big_nonvacuous.
