(* C07 - One fresh session key per file, wrapped identically by every auth block.
   Model: Model/Bec2.v.  os.urandom and key generation are oracle streams
   (rand16 i, keygen i): the theorems say WHICH draws are consumed, not that the
   operating system's generator is random (that clause is outside any model). *)
From Coq Require Import List NArith ZArith.
From Coq Require Import Init.Byte.
From Bec2 Require Import Base.Result Base.Bytes Base.Reader Gen.Consts Model.Cbc Model.Bf3 Model.AesContainer
  Model.Bec2 Model.Bec2Eq Proofs.CbcProofs Proofs.Bf3Proofs Proofs.Bec2Proofs Proofs.SessionKeyProofs.
Import ListNotations.
Open Scope N_scope.

Section C07.
  Variable enc dec mac : bytes -> option bytes -> bytes -> result bytes.
  Variable sha256 : bytes -> bytes.
  Variable pub_of : privkey -> bytes.
  Variable valid_pub : bytes -> bool.
  Variable ecdh : privkey -> bytes -> bytes.
  Variable keygen : N -> privkey.
  Variable rand16 : N -> bytes.

  (* writer: every auth block is packed with the object's session key, and the same key
     authenticates the directory and encrypts the components *)
  Theorem C07_same_key : forall b encs nk bin nk',
    bec2_to_binary enc mac sha256 pub_of ecdh keygen b encs nk = Ok (bin, nk') ->
    exists pl body,
      pack_list enc sha256 pub_of ecdh keygen (b_blocks b) (b_key b) encs nk = Ok (pl, nk') /\
      to_binary enc mac (f_comps (b_bf3 b)) (blen (BEC2_FILE_SIG ++ ser_packed pl ++ [x00; x00])) (b_key b) = Ok body /\
      bin = BEC2_FILE_SIG ++ (ser_packed pl ++ [x00; x00]) ++ body.
  Proof. exact (same_key_everywhere enc mac sha256 pub_of ecdh keygen). Qed.

  (* reader: two opened blocks with different keys, at any positions, reject the header *)
  Theorem C07_reject_mixed : forall decs pl fuel tail p x y k1 k2,
    Forall (fun '(t, _, raw) => t <> 0 /\ t < 256 /\ blen raw < 256) pl ->
    In x pl -> In y pl ->
    unpack_key dec sha256 valid_pub ecdh decs x = Some k1 ->
    unpack_key dec sha256 valid_pub ecdh decs y = Some k2 -> k1 <> k2 ->
    forall res, unpack_blocks dec sha256 valid_pub ecdh fuel
                  (mkR (ser_packed pl ++ [x00; x00] ++ tail) p) decs None [] <> Ok res.
  Proof. exact (reject_mixed_keys dec sha256 valid_pub ecdh). Qed.

  (* accepted header => the returned key is the key of every opened block *)
  Theorem C07_accepted_key : forall decs pl fuel tail p bl common' r,
    Forall (fun '(t, _, raw) => t <> 0 /\ t < 256 /\ blen raw < 256) pl ->
    unpack_blocks dec sha256 valid_pub ecdh fuel (mkR (ser_packed pl ++ [x00; x00] ++ tail) p) decs None [] =
      Ok (bl, common', r) ->
    forall x k, In x pl -> unpack_key dec sha256 valid_pub ecdh decs x = Some k -> common' = Some k.
  Proof.
    intros decs pl fuel tail p bl common' r Hf H.
    exact (proj1 (proj2 (unpack_blocks_same_key dec sha256 valid_pub ecdh decs pl _ _ _ _ _ _ _ _ Hf H))).
  Qed.

  (* pass-through of blocks without a matching decryptor, byte for byte, over any history *)
  Theorem C07_passthrough_read : forall decs t a raw,
    (unpack dec sha256 valid_pub ecdh t raw decs = Err EKey \/
     unpack dec sha256 valid_pub ecdh t raw decs = Err ENotImpl) ->
    rview dec sha256 valid_pub ecdh decs (t, a, raw) = ABUnknown t raw.
  Proof. exact (passthrough_read dec sha256 valid_pub ecdh). Qed.

  Theorem C07_passthrough_write : forall t raw key encs nk,
    pack enc sha256 pub_of ecdh keygen (ABUnknown t raw) key encs nk = Ok (raw, nk) /\
    ab_tag (ABUnknown t raw) = t.
  Proof. exact (passthrough_write enc sha256 pub_of ecdh keygen). Qed.

  Theorem C07_passthrough_history : forall n decs t raw,
    Forall (fun d => unpack dec sha256 valid_pub ecdh t raw d = Err EKey \/
                     unpack dec sha256 valid_pub ecdh t raw d = Err ENotImpl) decs ->
    cycles dec sha256 valid_pub ecdh n decs t raw (ABUnknown t raw) = ABUnknown t raw.
  Proof. exact (passthrough_history dec sha256 valid_pub ecdh). Qed.

  (* fresh draws *)
  Theorem C07_fresh_key : forall f bl nr,
    new_bec2 rand16 f bl None nr = (mkBec2 f (blocks_dict bl) (rand16 nr), nr + 1).
  Proof. exact (fresh_key_draw rand16). Qed.
  Theorem C07_given_key_no_draw : forall f bl x k nr,
    new_bec2 rand16 f bl (Some (x :: k)) nr = (mkBec2 f (blocks_dict bl) (x :: k), nr).
  Proof. exact (given_key_no_draw rand16). Qed.
  Theorem C07_fresh_sequence : forall fs nr,
    snd (create_all rand16 fs nr) = nr + N.of_nat (length fs) /\
    map b_key (fst (create_all rand16 fs nr)) = map (fun i => rand16 (nr + N.of_nat i)) (seq 0 (length fs)).
  Proof. exact (fresh_sequence rand16). Qed.
  Theorem C07_ecc_ephemeral_fresh : forall s pub pr pt nk c nk',
    e_encrypt enc sha256 pub_of ecdh keygen (EEcc s pub pr) pt nk = Ok (c, nk') ->
    nk' = nk + 1 /\ exists ct, c = [x04] ++ pub_of (keygen nk) ++ ct /\
                               enc (ecdh_key sha256 ecdh (keygen nk) pub) None pt = Ok ct.
  Proof. exact (ecc_ephemeral_is_fresh enc sha256 pub_of ecdh keygen). Qed.
  Theorem C07_draws_per_block : forall a key encs nk raw nk',
    pack enc sha256 pub_of ecdh keygen a key encs nk = Ok (raw, nk') -> nk <= nk' <= nk + 1.
  Proof. exact (pack_draws_monotone enc sha256 pub_of ecdh keygen). Qed.
End C07.
Print Assumptions C07_same_key.
Print Assumptions C07_reject_mixed.
Print Assumptions C07_accepted_key.
Print Assumptions C07_passthrough_read.
Print Assumptions C07_passthrough_write.
Print Assumptions C07_passthrough_history.
Print Assumptions C07_fresh_key.
Print Assumptions C07_given_key_no_draw.
Print Assumptions C07_fresh_sequence.
Print Assumptions C07_ecc_ephemeral_fresh.
Print Assumptions C07_draws_per_block.

(* non-vacuity: a header with a customer-key block under key A and an update block under key B
   is rejected by the executable model; with equal keys it is accepted *)
Definition nv_sha (x : bytes) : bytes := x ++ zeros 32.
Definition nv_kA : bytes := H 16 0x000102030405060708090A0B0C0D0E0F.
Definition nv_kB : bytes := H 16 0x000102030405060708090A0B0C0D0E10.
Definition nv_hdr (k1 k2 : bytes) : result bytes :=
  let* (r1, _) := pack (adapter_encrypt toyE) nv_sha toy_pub_of toy_ecdh toy_keygen ABCustKey k1 [ECustKey (zeros 16) None] 0 in
  let* (r2, _) := pack (adapter_encrypt toyE) nv_sha toy_pub_of toy_ecdh toy_keygen (ABUpdate (zeros 8) 7) k2 [] 0 in
  Ok (ser_packed [(1, ABCustKey, r1); (2, ABUpdate (zeros 8) 7, r2)] ++ [x00; x00]).
Definition nv_read (h : result bytes) :=
  let* b := h in
  unpack_blocks (adapter_decrypt toyD) nv_sha toy_valid_pub toy_ecdh 10 (mkR b 5)
    [ECustKey (zeros 16) None; ECsc (zeros 8)] None [].
Example C07_nonvacuous :
  is_ok (nv_read (nv_hdr nv_kA nv_kA)) = true /\ nv_read (nv_hdr nv_kA nv_kB) = Err EBec2.
Proof. split; vm_compute; reflexivity. Qed.
Print Assumptions C07_nonvacuous.
