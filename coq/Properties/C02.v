(* C02 - BEC2 write-then-read recovers key, auth blocks and content for every key.
   Model: Model/Bec2.v on top of Model/Bf3.v and Model/AesContainer.v.
   Cipher = registered adapter over ANY invertible 16-byte block function (C16);
   ECC plug-in abstract: public keys are 64 bytes, pass validation, and ECDH
   commutes (discharged for the bundled curve code in C17). *)
From Coq Require Import List NArith ZArith.
From Coq Require Import Init.Byte.
From Bec2 Require Import Base.Result Base.Bytes Base.Reader Gen.Consts Model.Cbc Model.Bf3 Model.AesContainer
  Model.Bec2 Model.Bec2Eq Proofs.CbcProofs Proofs.Bf3Proofs Proofs.Bf3TextProofs Proofs.Bec2Proofs.
Import ListNotations.
Open Scope N_scope.

Section C02.
  Variable E D : bytes -> bytes -> bytes.
  Hypothesis E_len : forall k b, length b = 16%nat -> length (E k b) = 16%nat.
  Hypothesis DE : forall k b, length b = 16%nat -> D k (E k b) = b.
  Variable sha256 : bytes -> bytes.
  Variable pub_of : privkey -> bytes.
  Variable valid_pub : bytes -> bool.
  Variable ecdh : privkey -> bytes -> bytes.
  Variable keygen : N -> privkey.
  Variable rand16 : N -> bytes.
  Hypothesis pub_len : forall d, blen (pub_of d) = 64.
  Hypothesis pub_valid : forall d, valid_pub (pub_of d) = true.
  Hypothesis ecdh_comm : forall d e, ecdh d (pub_of e) = ecdh e (pub_of d).

  Let enc := adapter_encrypt E.
  Let dec := adapter_decrypt D.
  Let mac := adapter_mac E.

  Lemma c2_mac_len : forall k iv d m, d <> [] -> mac k iv d = Ok m -> blen m = 16.
  Proof. exact (adapter_mac_len E D E_len DE). Qed.
  Lemma c2_enc_len : forall k d c, blen d mod 16 = 0 -> enc k None d = Ok c -> blen c = blen d.
  Proof. intros k d c Hm He. exact (proj2 (adapter_inverse E D E_len DE k None d c Hm He)). Qed.
  Lemma c2_dec_enc : forall k d c, blen d mod 16 = 0 -> enc k None d = Ok c -> dec k None c = Ok d.
  Proof. intros k d c Hm He. exact (proj1 (adapter_inverse E D E_len DE k None d c Hm He)). Qed.

  (* one auth block: whatever the session key (any 16 bytes: zero tails, CRC bytes 00 ...),
     a matching decryptor recovers exactly the block and the key *)
  Theorem C02_block : forall a key encs decs nk raw nk' we de,
    blen key = 16 -> known_block a ->
    wsel a encs = Ok we -> rsel a decs = Ok de -> matches pub_of we de ->
    (match a with ABUpdate code _ => we = ECsc code | _ => True end) ->
    pack enc sha256 pub_of ecdh keygen a key encs nk = Ok (raw, nk') ->
    unpack dec sha256 valid_pub ecdh (ab_tag a) raw decs = Ok (a, key).
  Proof.
    exact (unpack_pack enc dec sha256 pub_of valid_pub ecdh keygen c2_enc_len c2_dec_enc
             pub_len pub_valid ecdh_comm).
  Qed.

  (* whole file, every decryptor subset: each block is either opened with the file's key
     or skipped (no matching decryptor / cannot decrypt), at least one is opened *)
  Theorem C02_roundtrip_subset : forall f bs key encs decs nk t nk' check nr,
    blen key = 16 -> wf_file f ->
    bec2_write_file enc mac sha256 pub_of ecdh keygen (mkBec2 f bs key) encs nk = Ok (t, nk') ->
    exists pl, pack_list enc sha256 pub_of ecdh keygen bs key encs nk = Ok (pl, nk') /\
      (Forall (block_good dec sha256 valid_pub ecdh decs key) pl ->
       existsb (ropened dec sha256 valid_pub ecdh decs) pl = true ->
       bec2_read_file dec mac sha256 valid_pub ecdh rand16 t decs check nr =
         Ok (mkBec2 (file_view f) (blocks_dict (map (rview dec sha256 valid_pub ecdh decs) pl)) key, nr)).
  Proof.
    exact (bec2_read_write enc dec mac sha256 pub_of valid_pub ecdh keygen rand16
             c2_mac_len c2_enc_len c2_dec_enc).
  Qed.

  (* all blocks matched: same session key, same auth blocks, same content *)
  Theorem C02_roundtrip : forall f bs key encs decs nk t nk' check nr,
    blen key = 16 -> wf_file f -> bs <> [] ->
    NoDup (map fst bs) -> all_match pub_of bs encs decs ->
    bec2_write_file enc mac sha256 pub_of ecdh keygen (mkBec2 f bs key) encs nk = Ok (t, nk') ->
    bec2_read_file dec mac sha256 valid_pub ecdh rand16 t decs check nr =
      Ok (mkBec2 (file_view f) bs key, nr).
  Proof.
    exact (bec2_read_write_all enc dec mac sha256 pub_of valid_pub ecdh keygen rand16
             c2_mac_len c2_enc_len c2_dec_enc pub_len pub_valid ecdh_comm).
  Qed.
End C02.
Print Assumptions C02_block.
Print Assumptions C02_roundtrip_subset.
Print Assumptions C02_roundtrip.

(* non-vacuity: toy cipher + toy ECC, all three block kinds, a session key ending in 00 00,
   an encrypted component; written and read back by the executable model *)
Definition ex_sha (x : bytes) : bytes := x ++ zeros 32.    (* any function will do *)
Definition ex_priv : privkey := toy_keygen 41.
Definition ex_key : bytes := H 16 0x0102030405060708090A0B0C0D0E0000.
Definition ex_bec2 : bec2 :=
  mkBec2 (mkBf3 [([107], [118])] [mkComp [(0xC2, [x02])] [x09; x08; x00] 3 true])
         [(2, ABUpdate (zeros 8) 255); (3, ABEcc 2); (1, ABCustKey)] ex_key.
Definition ex_encs := [ECustKey (zeros 16) (Some (H 10 0x11223344556677889900, 0)); EEcc 2 (toy_pub_of ex_priv) None].
Definition ex_decs := [ECustKey (zeros 16) (Some (H 10 0x11223344556677889900, 0)); EEcc 2 (toy_pub_of ex_priv) (Some ex_priv); ECsc (zeros 8)].
Example C02_nonvacuous :
  (let* (t, _) := bec2_write_file (adapter_encrypt toyE) (adapter_mac toyE) ex_sha toy_pub_of toy_ecdh toy_keygen ex_bec2 ex_encs 0 in
   bec2_read_file (adapter_decrypt toyD) (adapter_mac toyE) ex_sha toy_valid_pub toy_ecdh toy_rand16 t ex_decs true 0)
  = Ok (mkBec2 (file_view (b_bf3 ex_bec2)) (b_blocks ex_bec2) ex_key, 0).
Proof. vm_compute. reflexivity. Qed.
Print Assumptions C02_nonvacuous.
