(* C13 - BF2 import preserves firmware bytes and rejects what BF3 cannot represent.
   Model: Model/Bf2Import.v + Model/Bf2Str.v (hand model of bf2_unpack_payload,
   bf2_convert_payload, exec_bf2instrs, pfid2_filter_to_str, annotations, bf2_import /
   emit_bf3comp, parse_bf2_file, hex2bin; the tables BF2_TAGTYPE_MAP, known_tagtypes,
   BF2_INTERFACES, HWCID_MAP, PFID2FILTER_TO_HWCID_SPECIAL_CASES and the BF3TAG/FMT/TYPE/INTF
   constants are generated from the source into Gen/Consts.v).
   Specification (Proofs/Bf2UnpackProofs.v): a data line of tag type t with tag
   "L o1 o2 payload" places payload[0 .. L-2) at address (t - first type)*0x10000 + o1o2;
   image_of is the memory image the lines describe; contig / ascending / maximal_extents
   talk about addresses only.

   Given semantics (DESIGN.md): instructions are stateful (REBOOT, CRC, CHECK_FWVER are
   consumed by the section they close, everything else stays in force); a section whose
   SELECT_IF names an unknown interface is skipped.

   Theorems named _partial carry a hypothesis the property text does not have; what is
   excluded is shown by the _refuted example next to it. *)
From Coq Require Import String.
From Coq Require Import List Bool NArith ZArith Permutation.
From Coq Require Import Init.Byte.
From Bec2 Require Import Base.Result Base.Bytes Gen.Consts Model.Bf2Str Model.Bf2Import Model.Bf2Render
  Proofs.Bf2UnpackProofs Proofs.Bf2FilterProofs Proofs.Bf2ImportProofs Proofs.Bf2TextProofs
  Proofs.Bf2ClosureProofs Proofs.Bf2RenderProofs.
Import ListNotations.
Open Scope N_scope.

(* The tag-type table the theorems below are about (regenerated from the source):
   type -> (component type, hardware id, format, interface). *)
Example C13_table :
  BF2_TAGTYPE_MAP =
  [(0x34, (None, None, None, None));
   (0x35, (Some BF3TYPE_PERIPHERAL, Some 0x9B, Some BF3FMT_BLOB, Some BF3INTF_NFC));
   (0x39, (Some BF3TYPE_PERIPHERAL, Some 0xBE, Some BF3FMT_BLOB, None));
   (0x3D, (Some BF3TYPE_PERIPHERAL, Some 0xAD, Some BF3FMT_BLOB, Some BF3INTF_NFC));
   (0x40, (Some BF3TYPE_PERIPHERAL, Some 0xC0, Some BF3FMT_BLOB, Some BF3INTF_NFC));
   (0x48, (None, None, None, None));
   (0x70, (Some BF3TYPE_LOADER, None, Some BF3FMT_BF2COMPATIBLE, None));
   (0x83, (Some BF3TYPE_LOADER, None, Some BF3FMT_BF2COMPATIBLE, None));
   (0x84, (Some BF3TYPE_MAIN, None, Some BF3FMT_BF2COMPATIBLE, None))]
  /\ (forall t, t < 256 -> is_known_tagtype t =
        ((0x34 <=? t) && (t <=? 0x3E) || (0x40 <=? t) && (t <=? 0x48)
         || (0x70 <=? t) && (t <=? 0x73) || (0x83 <=? t) && (t <=? 0xA3)))
  /\ (forall t v, dget N.eqb t BF2_TAGTYPE_MAP = Some v -> is_known_tagtype t = true).
Proof. exact table_pinned. Qed.
Print Assumptions C13_table.

(* ---- payload unpacking ------------------------------------------------------------- *)

(* For well-formed lines bf2_unpack_payload is the dict built from the runs of
   consecutive contiguous lines (file order; a later run with the same start address
   replaces the earlier one). *)
Theorem C13_unpack : forall ls, ls <> [] -> Forall wf_line ls ->
  unpack ls = Ok (dupdate Z.eqb [] (runs (first_type ls) ls)).
Proof. exact unpack_runs. Qed.
Print Assumptions C13_unpack.

(* Blob sections: contiguous from address 0 => accepted, the blob is every payload in
   file order ... *)
Theorem C13_blob_accepts : forall ls, ls <> [] -> Forall wf_line ls ->
  contig (first_type ls) 0 ls -> convert ls BF3FMT_BLOB = Ok (concat (map line_data ls)).
Proof. exact blob_accepts. Qed.
Print Assumptions C13_blob_accepts.

(* ... and that blob is the memory image: byte a of the blob is the byte the lines place
   at address a, and nothing lies outside [0, |blob|). *)
Theorem C13_blob_image : forall ls b,
  contig (first_type ls) 0 ls -> b = concat (map line_data ls) ->
  forall a, image_of (first_type ls) ls a = in_extent (0%Z, b) a.
Proof. exact blob_image. Qed.
Print Assumptions C13_blob_image.

(* Accepted <-> contiguous from 0, for lines whose addresses ascend without overlap
   (the only shape an image rendered to lines, with or without gaps, can have). *)
Theorem C13_blob_partial : forall ls, ls <> [] -> Forall wf_line ls ->
  ascending (first_type ls) ls -> forall b,
  convert ls BF3FMT_BLOB = Ok b <->
  contig (first_type ls) 0 ls /\ b = concat (map line_data ls).
Proof. exact blob_iff. Qed.
Print Assumptions C13_blob_partial.

(* every payload byte of every line occurs exactly once, in file order *)
Theorem C13_no_loss_partial : forall ls b, ls <> [] -> Forall wf_line ls ->
  ascending (first_type ls) ls -> convert ls BF3FMT_BLOB = Ok b ->
  b = concat (map line_data ls) /\
  forall i l j x, nth_error ls i = Some l -> nth_error (line_data l) j = Some x ->
    nth_error b (length (concat (map line_data (firstn i ls))) + j) = Some x.
Proof.
  intros ls b Hne Hwf Ha Hc. apply (blob_iff ls Hne Hwf Ha) in Hc as [_ ->].
  split; [reflexivity|]. exact (concat_positions ls).
Qed.
Print Assumptions C13_no_loss_partial.

(* Without the ascending hypothesis the full statement is false: two runs that start at
   the same address collide in the dict, the earlier run is lost and the blob is accepted.
   (Not reachable from an image rendered to lines; reported as a finding outside the
   property's quantifier.) *)
Example C13_blob_refuted :
  exists ls b, Forall wf_line ls /\ convert ls BF3FMT_BLOB = Ok b /\
    ~ contig (first_type ls) 0 ls /\ b <> concat (map line_data ls).
Proof.
  exists [dup_line [x41; x42; x43; x44]; dup_line [x45; x46]], [x45; x46].
  destruct blob_collision as [H1 [H2 [H3 H4]]].
  split; [exact H1|]. split; [exact H2|]. split; [exact H3|]. rewrite H4. discriminate.
Qed.
Print Assumptions C13_blob_refuted.

(* gaps / non-zero start are rejected with Bf3FileFormatError and nothing else *)
Theorem C13_blob_reject : forall ls, ls <> [] -> Forall wf_line ls ->
  ascending (first_type ls) ls -> ~ contig (first_type ls) 0 ls ->
  convert ls BF3FMT_BLOB = Err EBf3.
Proof.
  intros ls Hne Hwf Ha Hn. destruct (convert ls BF3FMT_BLOB) as [b|e] eqn:E.
  - apply (blob_iff ls Hne Hwf Ha) in E as [Hc _]. contradiction.
  - rewrite (blob_reject_kind ls e Hne Hwf E). reflexivity.
Qed.
Print Assumptions C13_blob_reject.

(* Memory images: the encoded extents are maximal (sorted, separated by real gaps),
   describe exactly the image of the lines, contain every payload byte once, and are
   written as address(4) length(4) data. *)
Theorem C13_memimage_partial : forall ls, ls <> [] -> Forall wf_line ls ->
  ascending (first_type ls) ls ->
  let ex := runs (first_type ls) ls in
  maximal_extents ex /\
  (forall a, image_of_extents ex a = image_of (first_type ls) ls a) /\
  concat (map snd ex) = concat (map line_data ls) /\
  (Forall fits32 ex -> convert ls BF3FMT_MEMORYIMAGE = Ok (concat (map enc_extent ex))) /\
  (forall e, convert ls BF3FMT_MEMORYIMAGE = Err e -> e = EOverflow).
Proof. exact memimage_extents. Qed.
Print Assumptions C13_memimage_partial.

(* maximal extents with non-empty data are determined by the image alone *)
Theorem C13_extents_unique : forall e1 e2,
  maximal_extents e1 -> maximal_extents e2 ->
  Forall (fun e => snd e <> []) e1 -> Forall (fun e => snd e <> []) e2 ->
  (forall a, image_of_extents e1 a = image_of_extents e2 a) -> e1 = e2.
Proof. exact extents_unique. Qed.
Print Assumptions C13_extents_unique.

(* BF2-compatible sections: the raw lines, concatenated in file order *)
Theorem C13_compat : forall ls, convert ls BF3FMT_BF2COMPATIBLE = Ok (concat (map l_raw ls)).
Proof. exact compat_concat. Qed.
Print Assumptions C13_compat.

(* ---- tags -------------------------------------------------------------------------- *)

(* exec_bf2instrs writes exactly the tags the instructions state, in this order, over the
   initial description; REBOOT, CRC and CHECK_FWVER are consumed, the rest persists;
   an unknown SELECT_IF protocol (sup = false) yields no description. *)
Theorem C13_tags : forall i d c i' c' od, exec i d c = Ok (i', c', od) ->
  exists vR vC vP vH vK vF cid cver vCr sup vI,
    st_reboot i vR /\ st_crc i vC /\ st_select i (dget N.eqb BF3TAG_TYPE d) vP vH /\
    st_check i vK /\ st_firmware i (dget N.eqb BF3TAG_TYPE d) vF cid cver /\
    st_creator i vCr /\ st_select_if i sup vI /\
    i' = ddel str_eqb s_CHECK_FWVER (ddel str_eqb s_CRC (ddel str_eqb s_REBOOT i)) /\
    c' = ocset s_Bf3Update (dget str_eqb s_Bf3Update i)
           (ocset s_Creator vCr (ocset s_FirmwareVersion cver (ocset s_FirmwareId cid c))) /\
    od = if sup then
           Some (oset BF3TAG_INTF vI (oset BF3TAG_FWVER vF (oset BF3TAG_FWVER vK
                 (oset BF3TAG_HWCID vH (oset BF3TAG_PFID2 vP (oset BF3TAG_CRC vC
                 (oset BF3TAG_REBOOT vR d)))))))
         else None.
Proof. exact exec_normal_form. Qed.
Print Assumptions C13_tags.

(* reading a tag of such a description *)
Theorem C13_tag_lookup : forall t t' ov d,
  dget N.eqb t (oset t' ov d) =
  if t =? t' then match ov with Some v => Some v | None => dget N.eqb t d end else dget N.eqb t d.
Proof. exact dget_oset. Qed.
Print Assumptions C13_tag_lookup.

(* emit_bf3comp: type, format, hardware id and interface come from the table entry of the
   section's first tag type, the instructions are applied to that description and the
   payload is the conversion of exactly the section's lines. *)
Theorem C13_emit : forall data i c i' c' oc, emit data i c = Ok (i', c', oc) ->
  exists l0 rest oty hw ofmt intf,
    data = l0 :: rest /\
    dget N.eqb (l_type l0) BF2_TAGTYPE_MAP = Some (oty, hw, ofmt, intf) /\
    match oty with
    | None => i' = i /\ c' = c /\ oc = None
    | Some ty =>
      exists fmt od, ofmt = Some fmt /\ ty < 256 /\ fmt < 256 /\
        exec i (initial_desc ty fmt hw intf) c = Ok (i', c', od) /\
        match od with
        | None => oc = None
        | Some d => exists blob, convert data fmt = Ok blob /\ oc = Some (mkComp d blob)
        end
    end.
Proof. exact emit_spec. Qed.
Print Assumptions C13_emit.

(* ---- whole import (token level) ------------------------------------------------------ *)

(* An accepted import splits the data lines, in file order, into consecutive sections; each
   section is the result of emit_bf3comp on exactly its lines (a component, or skipped);
   every data group starts with a known tag type; the returned components are the
   converted sections (reordered by type); with enforcement the marker is present. *)
Theorem C13_sections : forall toks enforce cm cs, bf2_import toks enforce = Ok (cm, cs) ->
  exists s, run toks = Ok s /\
    log_lines (s_log s) = all_lines toks /\
    Forall section_ok (s_log s) /\
    Forall load_known toks /\
    Permutation cs (comps_of (s_log s)) /\
    (enforce = true -> dmem str_eqb s_Bf3Update cm = true).
Proof. exact import_sections. Qed.
Print Assumptions C13_sections.

(* a blob section of an accepted import holds exactly the image its lines describe *)
Theorem C13_section_blob_partial : forall cp src,
  section_ok (Some cp, src) -> Forall wf_line src -> ascending (first_type src) src ->
  dget N.eqb BF3TAG_FMT (c_desc cp) = Some [n2b BF3FMT_BLOB] ->
  contig (first_type src) 0 src /\ c_blob cp = concat (map line_data src) /\
  forall a, image_of (first_type src) src a = in_extent (0%Z, c_blob cp) a.
Proof. exact section_blob. Qed.
Print Assumptions C13_section_blob_partial.

Theorem C13_section_compat : forall cp src,
  section_ok (Some cp, src) ->
  dget N.eqb BF3TAG_FMT (c_desc cp) = Some [n2b BF3FMT_BF2COMPATIBLE] ->
  c_blob cp = concat (map l_raw src).
Proof. exact section_compat. Qed.
Print Assumptions C13_section_compat.

(* unknown tag types are errors *)
Theorem C13_reject_unknown : forall toks enforce pre ls post l0 rest,
  toks = pre ++ Load ls :: post -> ls = l0 :: rest -> is_known_tagtype (l_type l0) = false ->
  exists e, bf2_import toks enforce = Err e.
Proof. exact unknown_rejected. Qed.
Print Assumptions C13_reject_unknown.

(* firmware without the Bf3Update marker is an error; UnsupportedLegacyFirmwareError
   whenever nothing else is wrong *)
Theorem C13_reject_marker : forall toks, ~ has_marker toks ->
  exists e, bf2_import toks true = Err e /\ (forall s, run toks = Ok s -> e = EUnsupLegacy).
Proof. exact no_marker_rejected. Qed.
Print Assumptions C13_reject_marker.

(* an out-of-range CRC / firmware id (OverflowError in exec_bf2instrs) and a "##" header that
   puts a string where an instruction's parameter dict is expected (TypeError) are turned into
   Bf3FileFormatError by emit_bf3comp like ValueError, IndexError and KeyError *)
Theorem C13_emit_catches : caught_emit EOverflow = true /\ caught_emit EValue = true /\
  caught_emit EIndex = true /\ caught_emit EKey = true /\ caught_emit EType = true.
Proof. exact emit_catches. Qed.
Print Assumptions C13_emit_catches.

(* a loader component without interface tag (no SELECT_IF in force) is a format error *)
Theorem C13_reject_loader_without_interface : forall c tyb,
  dget N.eqb BF3TAG_TYPE (c_desc c) = Some tyb -> from_be tyb = BF3TYPE_LOADER ->
  dget N.eqb BF3TAG_INTF (c_desc c) = None -> annotation c = Err EBf3.
Proof. exact loader_without_interface. Qed.
Print Assumptions C13_reject_loader_without_interface.

(* a header line "##load:<value>" (value without ':') is refused by the parser *)
Theorem C13_reject_load_header : forall value,
  parse_meta_line (s_load ++ [58] ++ value) = Err EValue \/ exists c, In c value /\ c = 58.
Proof. exact load_header_rejected. Qed.
Print Assumptions C13_reject_load_header.

(* ---- summary comment and filter expression ------------------------------------------- *)

(* the comment names the kind and appends the printed filter expression *)
Theorem C13_comment : forall c s, annotation c = Ok s ->
  exists base, kind_text (c_desc c) base /\
    match dget N.eqb BF3TAG_PFID2 (c_desc c) with
    | None => s = base
    | Some f => filter_header_ok f = true /\
                s = base ++ s_pfid_open ++ print_expr (filter_expr f) ++ [93]
    end.
Proof. exact annotation_shape. Qed.
Print Assumptions C13_comment.

(* the rendered string is the printed form of the tree filter_expr f ... *)
Theorem C13_filter_print : forall f,
  pfid2_filter_to_str f = if filter_header_ok f then Ok (print_expr (filter_expr f)) else Err EBf3.
Proof. exact filter_str_is_printed_expr. Qed.
Print Assumptions C13_filter_print.

(* ... the printed form reads back as that tree (ids are 14 bit by construction) ... *)
Theorem C13_filter_parse : forall f, parse_expr (print_expr (filter_expr f)) = Some (filter_expr f).
Proof. exact parse_print_filter. Qed.
Print Assumptions C13_filter_parse.

(* ... and the tree evaluates like the filter bytes over every hardware set, provided the
   last entry closes its group. *)
Theorem C13_filter_expr_partial : forall f, terminated (entries (dropN 2 f)) ->
  forall hw, eval_expr hw (filter_expr f) = eval_filter_bytes hw f.
Proof. exact filter_expr_equiv. Qed.
Print Assumptions C13_filter_expr_partial.

(* string level, the three statements above combined: whatever string the renderer returns
   reads back as a tree that evaluates like the filter bytes *)
Theorem C13_filter_string_partial : forall f s, pfid2_filter_to_str f = Ok s ->
  terminated (entries (dropN 2 f)) ->
  exists e, parse_expr s = Some e /\ forall hw, eval_expr hw e = eval_filter_bytes hw f.
Proof. exact filter_string_equiv. Qed.
Print Assumptions C13_filter_string_partial.

(* excluded by [terminated]: entries of an unterminated last group are not rendered *)
Example C13_filter_expr_refuted :
  exists f hw, pfid2_filter_to_str f = Ok [] /\
    eval_filter_bytes hw f = false /\ eval_expr hw (filter_expr f) = true.
Proof.
  exists [x01; x01; x80; x9b], (fun _ => false). exact filter_unterminated_dropped.
Qed.
Print Assumptions C13_filter_expr_refuted.

(* ---- text level ---------------------------------------------------------------------------
   The grammar (Model/Bf2Render.v): a BF2 text is a sequence of items
     IHeader name value   "##" name ": " value
     IInstr name []       "#>" name
     IInstr name params   "#>" name " " k1 "=" v1 "," k2 "=" v2 ...
     IData lines          ":0000FE00", one ":" + hex(rawdata) line per data line, ":0000FF00"
   every line followed by the file's line ending (render_file) or every line but the last
   (render_file_nonl).  item_ok (Proofs/Bf2RenderProofs.v) is the grammar's side condition; it
   is decidable (C13_text_item_ok_dec) and each of its clauses is needed (C13_text_*_refuted).
   The model mirrors CPython's str.strip / str.split(None) for code points 0..255 (Bf2Str.v),
   so as far as /repo is concerned the statements are about Latin-1 texts.

   The two theorems named _partial are kept; C13_text_file subsumes C13_text_group_partial
   (a one-item file [IData ls] with CRLF) and generalises C13_text_dataline_partial from the
   two line endings to any blank terminator (C13_text_dataline). *)

(* a data line written as ':' + hex of index(2) type(1) taglen(1) tag extra, with CRLF or LF,
   parses to that line, and rawdata is all its bytes *)
Theorem C13_text_dataline_partial : forall ndx ty tag extra eol,
  ndx < 65536 -> ty < 256 -> blen tag < 256 -> (eol = [13; 10] \/ eol = [10]) ->
  let raw := be 2 ndx ++ [n2b ty] ++ [n2b (blen tag)] ++ tag ++ extra in
  parse_data_line ([58] ++ hex_upper raw ++ eol) = Ok (mkLine ty ndx tag raw).
Proof. exact parse_rendered_line. Qed.
Print Assumptions C13_text_dataline_partial.

(* a data group written as start marker (type FE), data lines, end marker (type FF), each line
   ':' + hex + CRLF, parses to one "load" token holding exactly those lines in order *)
Theorem C13_text_group_partial : forall ls, ls <> [] -> Forall text_ok ls ->
  parse_text (render_group ls) = Ok [Load ls].
Proof. exact parse_rendered_group. Qed.
Print Assumptions C13_text_group_partial.

(* the side conditions, spelled out *)
Example C13_text_grammar :
  (forall e, eol_ok e <-> e = [13; 10] \/ e = [10]) /\
  (forall s, no_lead s <-> forall c t, s = c :: t -> is_space c = false) /\
  (forall s, no_trail s <-> forall c t, s = t ++ [c] -> is_space c = false) /\
  (forall n v, item_ok (IHeader n v) <->
     ~ In 58 n /\ ~ In 10 n /\ n <> s_load /\                        (* name: no ':', no line break, not "load" *)
     ~ In 58 v /\ ~ In 10 v /\ no_lead v /\ no_trail v) /\            (* value: no ':', no line break, stripped *)
  (forall n ps, item_ok (IInstr n ps) <->
     n <> [] /\ (forall c, In c n -> is_space c = false) /\ n <> s_load /\   (* name: one word, not "load" *)
     Forall (fun kv =>
       ~ In 10 (fst kv) /\ ~ In 44 (fst kv) /\ ~ In 61 (fst kv) /\ no_lead (fst kv) /\    (* key: no line break , = ; no leading blank *)
       ~ In 10 (snd kv) /\ ~ In 44 (snd kv) /\ ~ In 61 (snd kv) /\ no_trail (snd kv)) ps) /\ (* value: likewise; no trailing blank *)
  (forall ls, item_ok (IData ls) <-> ls <> [] /\ Forall text_ok ls) /\
  (forall l, text_ok l <->
     exists extra, l_raw l = be 2 (l_ndx l) ++ [n2b (l_type l)] ++ [n2b (blen (l_tag l))] ++ l_tag l ++ extra /\
                   l_ndx l < 65536 /\ l_type l < 254 /\ blen (l_tag l) < 256).
Proof. split; [|split; [|split; [|split; [|split; [|split]]]]]; intros; split; intro X; exact X. Qed.
Print Assumptions C13_text_grammar.

Theorem C13_text_item_ok_dec : forall it, item_okb it = true <-> item_ok it.
Proof. exact item_okb_iff. Qed.
Print Assumptions C13_text_item_ok_dec.

(* WHOLE FILES: every text of the grammar parses to exactly the tokens it was rendered from,
   with CRLF and with LF line ends ... *)
Theorem C13_text_file : forall eol items, eol_ok eol -> Forall item_ok items ->
  parse_text (render_file eol items) = Ok (tokens_of items).
Proof. exact text_file. Qed.
Print Assumptions C13_text_file.

(* ... and when the last line has no line end *)
Theorem C13_text_file_no_final_newline : forall eol items, eol_ok eol -> Forall item_ok items ->
  parse_text (render_file_nonl eol items) = Ok (tokens_of items).
Proof. exact text_file_nonl. Qed.
Print Assumptions C13_text_file_no_final_newline.

(* ... and, on the lines the file iterator delivers, with any white space (blanks, tabs, CR,
   no-break space ...) before the line ends: every line is its rendered body followed by a blank
   terminator of its own *)
Theorem C13_text_lines : forall items Ls, Forall item_ok items ->
  Forall2 (fun b l => exists t, blank t = true /\ l = b ++ t) (file_bodies items) Ls ->
  parse_lines Ls [] = Ok (tokens_of items).
Proof. exact text_lines. Qed.
Print Assumptions C13_text_lines.

(* the text of C13_text_group_partial is the one-item file [IData ls] with CRLF: that theorem is
   the instance eol = CRLF, items = [IData ls] of C13_text_file *)
Theorem C13_text_group_subsumed : forall ls, render_group ls = render_file CRLF [IData ls].
Proof. exact group_is_file. Qed.
Print Assumptions C13_text_group_subsumed.

(* single lines.  Header comment: the name as it stands, the value stripped ... *)
Theorem C13_text_header_comment : forall eol n v, eol_ok eol -> item_ok (IHeader n v) ->
  parse_text ([35; 35] ++ n ++ [58; 32] ++ v ++ eol) = Ok [Instr n (PStr v)].
Proof. exact text_header_comment. Qed.
Print Assumptions C13_text_header_comment.

(* ... also with blanks or tabs before the line end (t: any white space) *)
Theorem C13_text_header_comment_line : forall n v t, item_ok (IHeader n v) -> blank t = true ->
  parse_meta_line (n ++ [58; 32] ++ v ++ t) = Ok (Instr n (PStr v)).
Proof. exact meta_line_tailed. Qed.
Print Assumptions C13_text_header_comment_line.

(* Instruction without parameter: the empty dictionary *)
Theorem C13_text_instruction : forall eol n, eol_ok eol -> item_ok (IInstr n []) ->
  parse_text ([35; 62] ++ n ++ eol) = Ok [Instr n (PDict [])].
Proof. exact text_instruction_noparam. Qed.
Print Assumptions C13_text_instruction.

(* Instruction with key=value parameters: the dictionary dict() builds from the pairs in order
   (a repeated key keeps its first position and takes the last value) ... *)
Theorem C13_text_instruction_params : forall eol n kv ps, eol_ok eol -> item_ok (IInstr n (kv :: ps)) ->
  parse_text ([35; 62] ++ n ++ [32] ++ join [44] (map param_body (kv :: ps)) ++ eol)
  = Ok [Instr n (PDict (dupdate str_eqb [] (kv :: ps)))].
Proof. exact text_instruction_params. Qed.
Print Assumptions C13_text_instruction_params.

(* ... which is the parameter list as written when no key is repeated *)
Theorem C13_text_instruction_params_nodup : forall ps : list (str * str),
  NoDup (map fst ps) -> dupdate str_eqb [] ps = ps.
Proof. exact dupdate_nodup. Qed.
Print Assumptions C13_text_instruction_params_nodup.

(* both forms with any white space before the line end *)
Theorem C13_text_instruction_line : forall n ps t, item_ok (IInstr n ps) -> blank t = true ->
  parse_cmd_line (match ps with
                  | [] => n ++ t
                  | _ => n ++ [32] ++ join [44] (map param_body ps) ++ t
                  end) = Ok (Instr n (PDict (dupdate str_eqb [] ps))).
Proof. exact cmd_line_tailed. Qed.
Print Assumptions C13_text_instruction_line.

(* There is no third parameter form: "#>NAME word" with a word that is not key=value is refused
   (dict() of a one-element list is a ValueError, which bf2_import reports as
   Bf3FileFormatError).  So "#>CRC 0x12345678" is not BF2; the CRC is given as "##CRC: 0x...". *)
Theorem C13_text_instruction_plain_rejected : forall n w t,
  n <> [] -> (forall c, In c n -> is_space c = false) ->
  w <> [] -> ~ In 44 w -> ~ In 61 w -> no_lead w -> no_trail w -> blank t = true ->
  parse_cmd_line (n ++ [32] ++ w ++ t) = Err EValue.
Proof. exact plain_param_line_rejected. Qed.
Print Assumptions C13_text_instruction_plain_rejected.

(* a data line with any white space before the line end *)
Theorem C13_text_dataline : forall ndx ty tag extra t,
  ndx < 65536 -> ty < 256 -> blen tag < 256 -> blank t = true ->
  let raw := be 2 ndx ++ [n2b ty] ++ [n2b (blen tag)] ++ tag ++ extra in
  parse_data_line ([58] ++ hex_upper raw ++ t) = Ok (mkLine ty ndx tag raw).
Proof. exact parse_data_tailed. Qed.
Print Assumptions C13_text_dataline.

(* Each clause of item_ok is needed: a one-item file that violates just that clause does not
   parse back to its item (rt_fails it := parse_text (render_file CRLF [it]) <> Ok (tokens_of [it])). *)
Example C13_text_header_comment_refuted :
  rt_fails (IHeader [97; 58; 98] [118])            (* ':' in the name: three fields, ValueError *)
  /\ rt_fails (IHeader [97; 10; 98] [118])         (* line break in the name *)
  /\ rt_fails (IHeader s_load [118])               (* reserved name *)
  /\ rt_fails (IHeader [97] [49; 50; 58; 51; 48])  (* ':' in the value ("12:30"): ValueError *)
  /\ rt_fails (IHeader [97] [120; 10; 121])        (* line break in the value: cut *)
  /\ rt_fails (IHeader [97] [32; 118])             (* value starts with a blank: stripped *)
  /\ rt_fails (IHeader [97] [118; 160]).           (* value ends with a no-break space: stripped *)
Proof. exact header_clauses_needed. Qed.
Print Assumptions C13_text_header_comment_refuted.

(* in particular a header value that contains ':' makes the whole file unreadable *)
Example C13_text_header_value_colon_refuted :
  parse_text (render_file CRLF [IHeader [97] [49; 50; 58; 51; 48]]) = Err EValue.
Proof. exact header_value_with_colon_is_an_error. Qed.
Print Assumptions C13_text_header_value_colon_refuted.

Example C13_text_instruction_refuted :
  rt_fails (IInstr [] [])                                   (* no name *)
  /\ rt_fails (IInstr [65; 32; 66] [])                      (* blank in the name: "B" becomes the parameter *)
  /\ rt_fails (IInstr s_load [])                            (* reserved name *)
  /\ rt_fails (IInstr [88] [([97; 10], [118])])             (* line break in a key *)
  /\ rt_fails (IInstr [88] [([97; 44; 98], [118])])         (* ',' in a key *)
  /\ rt_fails (IInstr [88] [([97; 61; 98], [118])])         (* '=' in a key *)
  /\ rt_fails (IInstr [88] [([32; 97], [118])])             (* key starts with a blank: stripped *)
  /\ rt_fails (IInstr [88] [([97], [118; 10; 119])])        (* line break in a value *)
  /\ rt_fails (IInstr [88] [([97], [118; 44; 119])])        (* ',' in a value *)
  /\ rt_fails (IInstr [88] [([97], [98; 61; 99])])          (* '=' in a value: three fields, ValueError *)
  /\ rt_fails (IInstr [88] [([97], [118; 9])]).             (* value ends with a tab: stripped *)
Proof. exact instr_clauses_needed. Qed.
Print Assumptions C13_text_instruction_refuted.

Example C13_text_group_refuted :
  rt_fails (IData [])                                                           (* empty group: no token *)
  /\ rt_fails (IData [mkLine 0x35 65536 [] [x00; x00; x35; x00]])               (* index beyond 16 bit *)
  /\ rt_fails (IData [mkLine 254 0 [] [x00; x00; xfe; x00]])                    (* type FE is the start marker *)
  /\ rt_fails (IData [mkLine 255 0 [] [x00; x00; xff; x00]])                    (* type FF is the end marker *)
  /\ rt_fails (IData [mkLine 0x35 0 (repeat x00 256) ([x00; x00; x35; x00] ++ repeat x00 256)])  (* tag beyond 255 bytes *)
  /\ rt_fails (IData [mkLine 0x35 0 [x41] [x00; x00; x36; x01; x41]]).          (* fields differ from the raw bytes *)
Proof. exact group_clauses_needed. Qed.
Print Assumptions C13_text_group_refuted.

(* ---- text -> tokens -> components, as ONE statement about the text ----------------------- *)

(* importing a rendered text is importing its items' tokens, whatever the outcome *)
Theorem C13_text_import_tokens : forall eol items enforce, eol_ok eol -> Forall item_ok items ->
  bf2_import_text (render_file eol items) enforce = bf2_import (tokens_of items) enforce.
Proof. exact import_text_tokens. Qed.
Print Assumptions C13_text_import_tokens.

(* what text_section says about one closed section (component or skipped, with its lines) *)
Example C13_text_section_def : forall items e, text_section items e <->
  section_ok e /\
  match fst e with
  | None => True
  | Some cp =>
    let src := snd e in
    (* tags: the table entry of the section's first tag type, overwritten by what the
       instructions in force state (clauses of C13_tags); every instruction in force is an
       instruction line or header comment of the text with the parameters written there *)
    (exists i ty fmt hw intf,
       (forall k p, In (k, p) i -> In (Instr k p) (tokens_of items)) /\
       dget N.eqb (first_type src) BF2_TAGTYPE_MAP = Some (Some ty, hw, Some fmt, intf) /\
       exists vR vC vP vH vK vF cid cver vCr vI,
         st_reboot i vR /\ st_crc i vC /\ st_select i (Some [n2b ty]) vP vH /\
         st_check i vK /\ st_firmware i (Some [n2b ty]) vF cid cver /\
         st_creator i vCr /\ st_select_if i true vI /\
         c_desc cp = oset BF3TAG_INTF vI (oset BF3TAG_FWVER vF (oset BF3TAG_FWVER vK
                       (oset BF3TAG_HWCID vH (oset BF3TAG_PFID2 vP (oset BF3TAG_CRC vC
                       (oset BF3TAG_REBOOT vR (initial_desc ty fmt hw intf)))))))) /\
    (* payload of a blob section: the image its data lines describe *)
    (dget N.eqb BF3TAG_FMT (c_desc cp) = Some [n2b BF3FMT_BLOB] ->
     Forall wf_line src -> ascending (first_type src) src ->
       contig (first_type src) 0 src /\ c_blob cp = concat (map line_data src) /\
       forall a, image_of (first_type src) src a = in_extent (0%Z, c_blob cp) a) /\
    (* payload of a BF2-compatible section: the raw lines *)
    (dget N.eqb BF3TAG_FMT (c_desc cp) = Some [n2b BF3FMT_BF2COMPATIBLE] ->
       c_blob cp = concat (map l_raw src))
  end.
Proof. exact text_section_unfold. Qed.
Print Assumptions C13_text_section_def.

(* An accepted import of a text of the grammar: the data lines of the text, in file order,
   are split into consecutive sections; every section satisfies text_section (tags as stated
   by instruction lines of the text, payload = image / raw lines of exactly its data lines);
   the returned components are the converted sections reordered by type; every data group
   starts with a known tag type; with enforcement the marker is present.
   (C13_text_file composed with C13_sections, C13_emit, C13_tags, C13_section_blob_partial and
   C13_section_compat, plus the provenance of the instructions.) *)
Theorem C13_text_import : forall eol items enforce cm cs, eol_ok eol -> Forall item_ok items ->
  bf2_import_text (render_file eol items) enforce = Ok (cm, cs) ->
  exists lg,
    log_lines lg = data_lines items /\
    Forall (text_section items) lg /\
    Permutation cs (comps_of lg) /\
    Forall load_known (tokens_of items) /\
    (enforce = true -> dmem str_eqb s_Bf3Update cm = true).
Proof. exact text_import. Qed.
Print Assumptions C13_text_import.

(* non-vacuity at text level: a two-section file (header comments, SELECT / SELECT_IF with
   parameters, a blob section closed by #>REBOOT, a main firmware whose data crosses from
   page 0 (tag type 84) to page 1 (tag type 85) in a second data group) satisfies item_ok, is
   the text shown, and imports - with either line ending - to the expected components *)
Example C13_text_nonvacuous :
  Forall item_ok ex_items /\
  render_file LF ex_items = lit
"##Firmware: 1100 IDE ZBA   1.02.03
##Creator: tool
##Bf3Update: 1
#>SELECT FILTER=01 01 00 9B
#>SELECT_IF PROTOCOL=BRP
:0000FE00
:00003506050000414243
:000135050400034445
:0000FF00
#>REBOOT
:0000FE00
:0002840706FFFC5A5B5C5D
:0000FF00
:0000FE00
:000385050400005E5F
:0000FF00
" /\
  Forall wf_line [ex_l1; ex_l2] /\ ascending 0x35 [ex_l1; ex_l2] /\
  forall eol, eol_ok eol ->
  exists cm c_sm c_main,
    bf2_import_text (render_file eol ex_items) true = Ok (cm, [c_sm; c_main]) /\
    c_blob c_sm = [x41; x42; x43; x44; x45] /\
    c_blob c_main = l_raw ex_m1 ++ l_raw ex_m2 /\
    dget N.eqb BF3TAG_REBOOT (c_desc c_sm) = Some [x01] /\
    dget N.eqb BF3TAG_HWCID (c_desc c_sm) = Some [x00; x9b] /\
    dget N.eqb BF3TAG_PFID2 (c_desc c_sm) = Some [x01; x01; x00; x9b] /\
    dget N.eqb BF3TAG_INTF (c_desc c_sm) = Some [x00] /\
    dget N.eqb BF3TAG_REBOOT (c_desc c_main) = None /\
    dget N.eqb BF3TAG_FWVER (c_desc c_main) = Some [x04; x4c; x01; x02; x03] /\
    dget str_eqb s_Bf3Update cm = Some (PStr [49]).
Proof.
  split; [exact ex_items_ok|]. split; [vm_compute; reflexivity|].
  split; [repeat constructor|]. split; [vm_compute; intuition discriminate|].
  intros eol [-> | ->]; (eexists; eexists; eexists; split; [vm_compute; reflexivity|]);
    vm_compute; repeat split; reflexivity.
Qed.
Print Assumptions C13_text_nonvacuous.

(* ---- error closure (cited by C14) ------------------------------------------------------ *)

(* Every error of the text-level importer model is a format error or a ValueError
   (is_format_or_value: Bf3FileFormatError and subclasses, ValueError, UnicodeDecodeError);
   for every text, with and without enforcement.  The ValueError cases are a data line whose
   tag is shorter than its length byte says (BytesReader in bf2_unpack_payload) and a BGM12X
   version that is not UTF-8 (UnicodeDecodeError in annotations). *)
Theorem C13_import_text_closure : forall text enforce e,
  bf2_import_text text enforce = Err e -> is_format_or_value e = true.
Proof. exact import_text_closure. Qed.
Print Assumptions C13_import_text_closure.

(* the same for token streams the parser can produce: no empty data group, no instruction
   called "load" (parse_bf2_file refuses "#>load" and "##load:") *)
Theorem C13_import_tokens_closure : forall toks enforce e, Forall tok_ok toks ->
  bf2_import toks enforce = Err e -> is_format_or_value e = true.
Proof. exact import_tokens_closure. Qed.
Print Assumptions C13_import_tokens_closure.

(* the parser yields only such tokens and fails only with ValueError *)
Theorem C13_parse_closure : forall text,
  (forall e, parse_text text = Err e -> e = EValue) /\
  (forall toks, parse_text text = Ok toks -> Forall tok_ok toks).
Proof. intro text. exact (parse_lines_facts (lines_of text []) []). Qed.
Print Assumptions C13_parse_closure.

(* without tok_ok (token streams no text can produce) non-format errors remain *)
Example C13_import_tokens_closure_refuted :
  bf2_import [Load []] true = Err EIndex /\
  bf2_import [Instr s_load (PDict [])] true = Err EKey /\
  bf2_import [Instr s_load (PStr [])] true = Err EIndex.
Proof. exact import_tokens_residual. Qed.
Print Assumptions C13_import_tokens_closure_refuted.

(* pfid2_filter_to_str fails with Bf3FileFormatError only *)
Theorem C13_filter_str_closure : forall f e, pfid2_filter_to_str f = Err e -> e = EBf3.
Proof. exact filter_str_closure. Qed.
Print Assumptions C13_filter_str_closure.

(* non-vacuity: a two-section token stream (a small SM4200 blob closed by #>REBOOT and a
   main firmware) satisfies the hypotheses used above and imports with the expected
   components, sorted by type *)
Example C13_nonvacuous :
  let l1 := mkLine 0x35 0 [x05; x00; x00; x41; x42; x43] [x00; x00; x35; x06; x05; x00; x00; x41; x42; x43] in
  let l2 := mkLine 0x35 1 [x04; x00; x03; x44; x45] [x00; x01; x35; x05; x04; x00; x03; x44; x45] in
  let m1 := mkLine 0x84 0 [x03; x00; x00; x5a] [x00; x00; x84; x04; x03; x00; x00; x5a] in
  let toks := [Instr s_Bf3Update (PStr [49]);
               Instr s_SELECT (PDict [(s_FILTER, [48; 49; 32; 48; 49; 32; 48; 48; 32; 57; 66])]);   (* "01 01 00 9B" *)
               Load [l1; l2]; Instr s_REBOOT (PDict []);
               Load [m1]] in
  Forall wf_line [l1; l2] /\ ascending 0x35 [l1; l2] /\ contig 0x35 0 [l1; l2] /\
  exists cm c_main c_sm, bf2_import toks true = Ok (cm, [c_sm; c_main]) /\
    c_blob c_sm = [x41; x42; x43; x44; x45] /\
    c_blob c_main = l_raw m1 /\
    dget N.eqb BF3TAG_REBOOT (c_desc c_sm) = Some [x01] /\
    dget N.eqb BF3TAG_HWCID (c_desc c_sm) = Some [x00; x9b] /\
    dget N.eqb BF3TAG_REBOOT (c_desc c_main) = None.
Proof.
  cbv zeta. split; [repeat constructor|]. split; [vm_compute; intuition discriminate|].
  split; [vm_compute; intuition reflexivity|].
  eexists. eexists. eexists. split; [vm_compute; reflexivity|].
  vm_compute. repeat split; reflexivity.
Qed.
Print Assumptions C13_nonvacuous.
