(* C14 - Parsers fail only with format errors and always terminate.
   For every model entry point: the result is Ok or an error e with
   is_format_or_value e = true (the library's format errors or ValueError); in
   particular never IndexError/KeyError/TypeError/OverflowError/AssertionError/
   bare Exception/NotImplementedError, and never EFuel (the model's loops are
   bounded by the input length, so the fuel always suffices: termination of the model).
   The models reproduce the exception class of every primitive (strict reads,
   to_bytes, dict lookups, the plug-in's errors).  What a theorem cannot carry:
   CPython's own termination, and "leaves library-global state unchanged"
   (observed by the search; the only writers of bec2format.crypto's module globals
   are the register_* functions - checked syntactically by tools/props/C14.py). *)
From Coq Require Import List NArith ZArith.
From Coq Require Import Init.Byte.
From Bec2 Require Import Base.Result Base.Bytes Base.Reader Gen.Consts Model.Cbc Model.Bf3 Model.AesContainer
  Model.Bec2 Model.ConfigId Proofs.ClosureProofs Proofs.ConfigIdProofs.
From Bec2 Require Model.Bf2Import Proofs.Bf2ClosureProofs.
Import ListNotations.
Open Scope N_scope.

(* BF3 reader, any text, MAC checking on or off, any key (also keys of a wrong size) *)
Theorem C14_bf3_reader : forall (E D : bytes -> bytes -> bytes) text check k,
  okerr (read_file (adapter_decrypt D) (adapter_mac E) text check k).
Proof.
  intros. apply read_file_okerr; intros; [apply adapter_mac_okerr|apply adapter_decrypt_okerr].
Qed.
Print Assumptions C14_bf3_reader.

(* the same for ANY plug-in cipher whose own failures are format/Value errors *)
Theorem C14_bf3_reader_any_cipher : forall dec mac,
  (forall k iv d, okerr (mac k iv d)) -> (forall k iv d, okerr (dec k iv d)) ->
  forall text check k, okerr (read_file dec mac text check k).
Proof. intros. apply read_file_okerr; assumption. Qed.
Print Assumptions C14_bf3_reader_any_cipher.

(* BEC2 reader with ANY list of decryptors: none, public-only (NotImplementedError inside is
   swallowed), private, wrong key, wrong security code *)
Theorem C14_bec2_reader : forall (E D : bytes -> bytes -> bytes) sha256 valid_pub ecdh rand16 text exts check nr,
  okerr (bec2_read_file (adapter_decrypt D) (adapter_mac E) sha256 valid_pub ecdh rand16 text exts check nr).
Proof.
  intros. apply bec2_read_file_okerr; intros; [apply adapter_mac_okerr|apply adapter_decrypt_okerr].
Qed.
Print Assumptions C14_bec2_reader.

(* every auth-block unpacker: KeyError / NotImplementedError (turned into "unknown block" by the
   caller) or an allowed error - nothing else *)
Theorem C14_unpack : forall (D : bytes -> bytes -> bytes) sha256 valid_pub ecdh t raw exts,
  softerr (Model.Bec2.unpack (adapter_decrypt D) sha256 valid_pub ecdh t raw exts).
Proof. intros. apply unpack_softerr. intros; apply adapter_decrypt_okerr. Qed.
Print Assumptions C14_unpack.

(* configuration-identifier parser: Ok or ConfigIdFormatError, for every text *)
Theorem C14_configid : forall t, okerr (create_from_str t).
Proof.
  intro t. destruct (create_from_str_errors t) as [[i ->]| ->]; [exact I|reflexivity].
Qed.
Print Assumptions C14_configid.

(* BF2 importer (text level model of Model/Bf2Import.v, tied to /repo by C13's correspondence):
   every failure is a format error or a ValueError, for every text, with and without the
   BF3-compatibility check; the platform-filter formatter fails only with Bf3FileFormatError *)
Theorem C14_bf2_import : forall text enforce,
  okerr (Model.Bf2Import.bf2_import_text text enforce).
Proof.
  intros text enforce. destruct (Model.Bf2Import.bf2_import_text text enforce) as [f|e] eqn:E; [exact I|].
  exact (Proofs.Bf2ClosureProofs.import_text_closure text enforce e E).
Qed.
Print Assumptions C14_bf2_import.

Theorem C14_pfid2_filter : forall f, okerr (Model.Bf2Import.pfid2_filter_to_str f).
Proof.
  intro f. destruct (Model.Bf2Import.pfid2_filter_to_str f) as [s|e] eqn:E; [exact I|].
  rewrite (Proofs.Bf2ClosureProofs.filter_str_closure f e E). reflexivity.
Qed.
Print Assumptions C14_pfid2_filter.

(* hex2bin and the comment/hex parser *)
Theorem C14_parse_bf3_file : forall t, okerr (parse_bf3_file t).
Proof. exact parse_bf3_file_okerr. Qed.
Print Assumptions C14_parse_bf3_file.

(* non-vacuity / witnesses that errors of each allowed kind do occur, and that the former
   offenders are now format errors in the model as well *)
Example C14_examples :
  read_file (adapter_decrypt toyD) (adapter_mac toyE) [] true (zeros 16) = Err EBf3 /\
  read_file (adapter_decrypt toyD) (adapter_mac toyE) (NL :: map b2n (H 10 0x34323436333330303030)) true (zeros 16) = Err EValue /\
  create_from_str [120] = Err ECfgId.
Proof. repeat split; vm_compute; reflexivity. Qed.
Print Assumptions C14_examples.
