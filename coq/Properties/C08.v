(* C08 - AES auth-block container: exact framing, exact inverse, errors on
   wrong key/CRC.  Model: Model/AesContainer.v (hand model of
   AesEncryptorMixin / SoftwareCustKeyEncryptor / ConfigSecurityCodeEncryptor;
   padding expression, CRC and constants generated from the source). *)
From Coq Require Import List NArith ZArith.
From Coq Require Import Init.Byte.
From Bec2 Require Import Base.Result Base.Bytes Gen.Crc Gen.Consts Model.Cbc Model.AesContainer
  Proofs.CrcProofs Proofs.AesContainerProofs Proofs.CbcProofs.
Import ListNotations.
Open Scope N_scope.

(* Frame shape for every payload of 0..253 bytes: 'B', length byte = len+2,
   1..16 zero bytes, payload, CRC-16 (big endian); a whole number of blocks. *)
Theorem C08_frame : forall pt, blen pt <= 253 ->
  exists pl, 1 <= pl <= 16 /\
    frame pt = Ok ([marker_B] ++ [n2b (blen pt + 2)] ++ zeros (N.to_nat pl) ++ pt ++ be 2 (crc_of pt)) /\
    blen ([marker_B] ++ [n2b (blen pt + 2)] ++ zeros (N.to_nat pl) ++ pt ++ be 2 (crc_of pt)) mod 16 = 0.
Proof. exact frame_shape. Qed.
Print Assumptions C08_frame.

(* the CRC in the frame is CRC-16/MCRF4XX of the payload (C15) *)
Theorem C08_frame_crc : forall pt,
  crc_of pt = crc16_mcrf4xx (map b2n pt) 0xFFFF /\ crc_of pt < 65536.
Proof.
  intro pt. unfold crc_of. apply crc_correct; [reflexivity|].
  apply Forall_forall. intros x Hx. apply in_map_iff in Hx as [b [<- _]]. apply b2n_lt.
Qed.
Print Assumptions C08_frame_crc.

(* payloads longer than 253 bytes are refused by the writer (OverflowError) *)
Theorem C08_overflow : forall pt, 253 < blen pt -> frame pt = Err EOverflow.
Proof. exact frame_overflow. Qed.
Print Assumptions C08_overflow.

(* exact inverse on the plaintext frame, all payloads *)
Theorem C08_unframe_frame : forall pt f, frame pt = Ok f -> unframe (blen f) f = Ok pt.
Proof. exact unframe_frame. Qed.
Print Assumptions C08_unframe_frame.

(* accepted => right marker and right CRC; the payload is exactly the framed one *)
Theorem C08_accept_sound : forall ctlen fr p, unframe ctlen fr = Ok p ->
  exists lb t, fr = marker_B :: lb :: t /\
    let L := b2n lb in
    2 <= L <= ctlen /\
    let r := dropN (ctlen - L) fr in
    L <= blen r /\ p = takeN (L - 2) r /\
    crc_of p = from_be (takeN 2 (dropN (L - 2) r)).
Proof. exact unframe_ok_inv. Qed.
Print Assumptions C08_accept_sound.

Theorem C08_reject_marker : forall ctlen m t, m <> marker_B -> unframe ctlen (m :: t) = Err EBec2.
Proof. exact unframe_bad_marker. Qed.
Print Assumptions C08_reject_marker.

Theorem C08_reject_crc : forall pt pl c, blen pt <= 253 -> blen c = 2 -> from_be c <> crc_of pt ->
  let f := [marker_B] ++ [n2b (blen pt + 2)] ++ zeros (N.to_nat pl) ++ pt ++ c in
  unframe (blen f) f = Err EBec2.
Proof. exact unframe_bad_crc. Qed.
Print Assumptions C08_reject_crc.

Theorem C08_error_kinds : forall ctlen fr e, unframe ctlen fr = Err e -> e = EBec2 \/ e = EValue.
Proof. exact unframe_errors. Qed.
Print Assumptions C08_error_kinds.

(* With the registered adapter (zero-padded CBC over ANY block function E/D
   with D k (E k b) = b on 16-byte blocks; C16 shows the bundled AES is one),
   unwrap inverts wrap for every key and every payload, and the ciphertext is a
   whole number of blocks. *)
Theorem C08_inverse :
  forall (E D : bytes -> bytes -> bytes),
  (forall k b, length b = 16%nat -> length (E k b) = 16%nat) ->
  (forall k b, length b = 16%nat -> D k (E k b) = b) ->
  forall k pt ct,
    wrap (fun k d => adapter_encrypt E k None d) k pt = Ok ct ->
    unwrap (fun k d => adapter_decrypt D k None d) k ct = Ok pt /\ blen ct mod 16 = 0.
Proof.
  intros E D HL HI k pt ct.
  apply (unwrap_wrap (fun k d => adapter_encrypt E k None d) (fun k d => adapter_decrypt D k None d)).
  intros k0 d c Hm He. exact (adapter_inverse E D HL HI k0 None d c Hm He).
Qed.
Print Assumptions C08_inverse.

(* customer key: overwrites exactly its 10-byte slot, is verified and blanked *)
Theorem C08_custkey_slot : forall pt pos v,
  pos + CUSTOMER_KEY_SIZE <= blen pt -> blen v = CUSTOMER_KEY_SIZE ->
  let r := slice_assign pt pos CUSTOMER_KEY_SIZE v in
  blen r = blen pt /\ takeN pos r = takeN pos pt /\ py_slice r pos CUSTOMER_KEY_SIZE = v /\
  dropN (pos + CUSTOMER_KEY_SIZE) r = dropN (pos + CUSTOMER_KEY_SIZE) pt.
Proof. intros pt pos v. exact (slice_assign_spec pt pos CUSTOMER_KEY_SIZE v). Qed.
Print Assumptions C08_custkey_slot.

Theorem C08_custkey_roundtrip :
  forall (E D : bytes -> bytes -> bytes),
  (forall k b, length b = 16%nat -> length (E k b) = 16%nat) ->
  (forall k b, length b = 16%nat -> D k (E k b) = b) ->
  forall k c p pt ct,
    c <> [] -> blen c = CUSTOMER_KEY_SIZE -> p + CUSTOMER_KEY_SIZE <= blen pt ->
    ck_wrap (fun k d => adapter_encrypt E k None d) k (Some (c, p)) pt = Ok ct ->
    ck_unwrap (fun k d => adapter_decrypt D k None d) k (Some (c, p)) ct =
      Ok (slice_assign pt p CUSTOMER_KEY_SIZE (zeros (N.to_nat CUSTOMER_KEY_SIZE))).
Proof.
  intros E D HL HI k c p pt ct.
  apply (ck_unwrap_wrap (fun k d => adapter_encrypt E k None d) (fun k d => adapter_decrypt D k None d)).
  intros k0 d c0 Hm He. exact (adapter_inverse E D HL HI k0 None d c0 Hm He).
Qed.
Print Assumptions C08_custkey_roundtrip.

Theorem C08_custkey_mismatch :
  forall (E D : bytes -> bytes -> bytes),
  (forall k b, length b = 16%nat -> length (E k b) = 16%nat) ->
  (forall k b, length b = 16%nat -> D k (E k b) = b) ->
  forall k c c' p pt ct,
    c <> [] -> c' <> [] -> blen c = CUSTOMER_KEY_SIZE -> p + CUSTOMER_KEY_SIZE <= blen pt -> c' <> c ->
    ck_wrap (fun k d => adapter_encrypt E k None d) k (Some (c, p)) pt = Ok ct ->
    ck_unwrap (fun k d => adapter_decrypt D k None d) k (Some (c', p)) ct = Err EBec2.
Proof.
  intros E D HL HI k c c' p pt ct.
  apply (ck_unwrap_mismatch (fun k d => adapter_encrypt E k None d) (fun k d => adapter_decrypt D k None d)).
  intros k0 d c0 Hm He. exact (adapter_inverse E D HL HI k0 None d c0 Hm He).
Qed.
Print Assumptions C08_custkey_mismatch.

(* security-code variant: AES key = first 16 bytes of SHA-256(code) *)
Theorem C08_csc : forall (sha256 : bytes -> bytes) code,
  csc_key sha256 code = takeN 16 (sha256 code).
Proof. intros. reflexivity. Qed.
Print Assumptions C08_csc.

(* non-vacuity: a concrete cipher meets the hypotheses, and a concrete wrap succeeds *)
Example C08_nonvacuous :
  exists ct, wrap (fun k d => adapter_encrypt toyE k None d) (zeros 16) [x01; x02; x00] = Ok ct
             /\ unwrap (fun k d => adapter_decrypt toyD k None d) (zeros 16) ct = Ok [x01; x02; x00].
Proof. eexists. split; vm_compute; reflexivity. Qed.
Print Assumptions C08_nonvacuous.
